//! Verification stub for the `tracing` crate: logging has an empty body.
//! Arguments are still type-checked (inside a dead branch) so that the real
//! code compiles without unused-variable warnings.

pub struct Level;
impl Level {
    pub const TRACE: Level = Level;
    pub const DEBUG: Level = Level;
    pub const INFO: Level = Level;
    pub const WARN: Level = Level;
    pub const ERROR: Level = Level;
}

#[doc(hidden)]
#[macro_export]
macro_rules! __verif_event {
    (target: $target:expr, $($arg:tt)+) => {{
        if false {
            let _ = &$target;
            let _ = ::core::format_args!($($arg)+);
        }
    }};
    ($($arg:tt)+) => {{
        if false {
            let _ = ::core::format_args!($($arg)+);
        }
    }};
}

#[macro_export]
macro_rules! trace { ($($arg:tt)+) => { $crate::__verif_event!($($arg)+) }; }
#[macro_export]
macro_rules! debug { ($($arg:tt)+) => { $crate::__verif_event!($($arg)+) }; }
#[macro_export]
macro_rules! info { ($($arg:tt)+) => { $crate::__verif_event!($($arg)+) }; }
#[macro_export]
macro_rules! warn { ($($arg:tt)+) => { $crate::__verif_event!($($arg)+) }; }
#[macro_export]
macro_rules! error { ($($arg:tt)+) => { $crate::__verif_event!($($arg)+) }; }

#[macro_export]
macro_rules! enabled {
    (target: $target:expr, $lvl:expr) => {{ let _ = &$target; let _ = &$lvl; false }};
    ($lvl:expr) => {{ let _ = &$lvl; false }};
}
