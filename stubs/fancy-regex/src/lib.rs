//! Verification stub for `fancy-regex`: the regex engine is an oracle.
//!
//! `is_match(text)` answers from a table indexed by `text.len()`; the harness fills the
//! table with symbolic booleans, so "does this prefix/suffix match?" is an arbitrary
//! (but deterministic) predicate of the candidate's length.
use std::borrow::Cow;

pub static mut VERIF_MATCH_BY_LEN: [bool; 8] = [false; 8];
pub static mut VERIF_BUILD_CALLS: usize = 0;

#[derive(Debug, Clone)]
pub enum Error { Stub }
impl std::fmt::Display for Error {
    fn fmt(&self, f: &mut std::fmt::Formatter<'_>) -> std::fmt::Result { f.write_str("stub regex error") }
}
impl std::error::Error for Error {}
pub type Result<T> = std::result::Result<T, Error>;

#[derive(Debug, Clone)]
pub struct Regex { _private: u8 }

pub struct RegexBuilder { _private: u8 }
impl RegexBuilder {
    pub fn new(_pattern: &str) -> Self { Self { _private: 0 } }
    pub fn case_insensitive(&mut self, _yes: bool) -> &mut Self { self }
    pub fn build(&self) -> Result<Regex> {
        unsafe { VERIF_BUILD_CALLS += 1; }
        Ok(Regex { _private: 0 })
    }
}

pub struct Match<'t> { text: &'t str }
impl<'t> Match<'t> { pub fn as_str(&self) -> &'t str { self.text } }

pub struct Captures<'t, S: ?Sized + 't = str> { whole: &'t str, _m: std::marker::PhantomData<&'t S> }
impl<'t, S: ?Sized> Captures<'t, S> {
    pub fn iter(&self) -> impl Iterator<Item = Option<Match<'t>>> + '_ {
        std::iter::once(Some(Match { text: self.whole }))
    }
    pub fn get(&self, i: usize) -> Option<Match<'t>> { if i == 0 { Some(Match { text: self.whole }) } else { None } }
}
impl<'t, S: ?Sized> std::ops::Index<usize> for Captures<'t, S> {
    type Output = str;
    fn index(&self, _i: usize) -> &str { self.whole }
}

pub trait Replacer { fn replace_append(&mut self, caps: &Captures<'_, str>, dst: &mut String); }
impl Replacer for &str { fn replace_append(&mut self, _c: &Captures<'_, str>, dst: &mut String) { dst.push_str(self); } }
impl Replacer for String { fn replace_append(&mut self, _c: &Captures<'_, str>, dst: &mut String) { dst.push_str(self); } }
impl<F, T> Replacer for F where F: FnMut(&Captures<'_, str>) -> T, T: AsRef<str> {
    fn replace_append(&mut self, c: &Captures<'_, str>, dst: &mut String) { dst.push_str((*self)(c).as_ref()); }
}

impl Regex {
    pub fn new(_pattern: &str) -> Result<Regex> { Ok(Regex { _private: 0 }) }
    pub fn is_match(&self, text: &str) -> Result<bool> {
        let i = if text.len() < 8 { text.len() } else { 7 };
        Ok(unsafe { VERIF_MATCH_BY_LEN[i] })
    }
    pub fn captures<'t>(&self, text: &'t str) -> Result<Option<Captures<'t, str>>> {
        if self.is_match(text)? { Ok(Some(Captures { whole: text, _m: std::marker::PhantomData })) } else { Ok(None) }
    }
    pub fn replace<'t, R: Replacer>(&self, text: &'t str, _rep: R) -> Cow<'t, str> { Cow::Borrowed(text) }
    pub fn replace_all<'t, R: Replacer>(&self, text: &'t str, _rep: R) -> Cow<'t, str> { Cow::Borrowed(text) }
}
