#!/usr/bin/env python3-vt
"""SMT check of the arithmetic grammar's operator table against C / bash semantics (property C07).

The `precedence!{...}` block of brush-parser/src/arithmetic.rs is read from the *current* source text and translated:
every rule becomes (literal, AST operator, fixity, associativity, level).  From that table the value brush computes for
    a OP b            (which AST operator a literal denotes)
    a OP1 b OP2 c     (how two binary operators group)
    U a OP b          (prefix operator against binary operator)
    a OP b ? c : d  /  a ? b : c OP d
is a term over 64-bit bit-vectors a, b, c, d; the same expression under C's table (bash manual, "ARITHMETIC EVALUATION") is a
second term.  z3 decides  exists a,b,c,d . brush_term != reference_term  for every operator combination: unsat = the two agree
for all 2^256 operand values (within the operand ranges stated below); sat = a concrete expression whose value differs, which the
driver replays against the natively built brush and against bash before it is reported.

Operand ranges (stated bound): operands are non-negative and < 2^16 so that the counterexample can be written as plain decimal
literals without introducing unary operators; divisors are non-zero; shift counts < 64; `**` exponents are in 0..=2.
Outside: assignment operators, `,`, increments (they need an lvalue and have side effects), spacing, literal forms.

Output: JSON on stdout.
"""
import json
import re
import sys
import time

import z3

BV = 64


def parse_table(src):
    m = re.search(r'rule expression\(\)\s*->\s*ast::ArithmeticExpr\s*=\s*precedence!\s*\{', src)
    if not m:
        raise ValueError('precedence! block of rule expression() not found')
    i = m.end()
    depth = 1
    j = i
    while j < len(src) and depth:
        c = src[j]
        if c == '"':
            j = src.index('"', j + 1)
        elif c == "'":
            # char literal like '+'
            k = src.find("'", j + 1)
            j = k if k > 0 and k - j <= 3 else j
        elif c == '{':
            depth += 1
        elif c == '}':
            depth -= 1
        j += 1
    body = src[i:j - 1]
    line0 = src.count('\n', 0, i) + 1
    levels = []
    cur = []
    for k, line in enumerate(body.split('\n')):
        t = line.strip()
        if not t or t.startswith('//'):
            continue
        if t == '--':
            levels.append(cur)
            cur = []
            continue
        cur.append((line0 + k, t))
    levels.append(cur)
    rules = []
    for lvl, rs in enumerate(levels):
        for (ln, t) in rs:
            r = {'level': lvl, 'line': ln, 'text': t}
            mm = re.match(r'x:\(@\)\s*_\s*"([^"]+)"\s*_\s*y:@\s*\{\s*ast::ArithmeticExpr::BinaryOp\(ast::BinaryOperator::(\w+)', t)
            if mm:
                r.update(kind='binary', lit=mm.group(1), op=mm.group(2), assoc='left')
                rules.append(r)
                continue
            mm = re.match(r'x:@\s*_\s*"([^"]+)"\s*_\s*y:\(@\)\s*\{\s*ast::ArithmeticExpr::BinaryOp\(ast::BinaryOperator::(\w+)', t)
            if mm:
                r.update(kind='binary', lit=mm.group(1), op=mm.group(2), assoc='right')
                rules.append(r)
                continue
            mm = re.match(r'x:@\s*_\s*"([^"]+)"\s*_\s*y:@\s*\{\s*ast::ArithmeticExpr::BinaryOp\(ast::BinaryOperator::(\w+)', t)
            if mm:
                r.update(kind='binary', lit=mm.group(1), op=mm.group(2), assoc='none')
                rules.append(r)
                continue
            mm = re.match(r'x:\(@\)\s*_\s*"([^"]+)"\s*_\s*y:\(@\)\s*\{\s*ast::ArithmeticExpr::BinaryOp\(ast::BinaryOperator::(\w+)', t)
            if mm:
                r.update(kind='binary', lit=mm.group(1), op=mm.group(2), assoc='both')
                rules.append(r)
                continue
            mm = re.match(r'"([^"]+)"\s*(?:!\[[^\]]*\]\s*)?_\s*x:\(@\)\s*\{\s*ast::ArithmeticExpr::UnaryOp\(ast::UnaryOperator::(\w+)', t)
            if mm:
                r.update(kind='prefix', lit=mm.group(1), op=mm.group(2))
                rules.append(r)
                continue
            mm = re.match(r'x:(@|\(@\))\s*_\s*"\?"\s*_\s*y:expression\(\)\s*_\s*":"\s*_\s*z:(@|\(@\))\s*\{\s*ast::ArithmeticExpr::Conditional', t)
            if mm:
                r.update(kind='ternary', lit='?:', op='Conditional', assoc='right' if mm.group(2) == '(@)' else 'left')
                rules.append(r)
                continue
            if 'BinaryAssignment' in t or 'ArithmeticExpr::Assignment' in t:
                r.update(kind='assignment')
            elif 'UnaryAssignment' in t:
                r.update(kind='incdec')
            elif 'Literal' in t or 'Reference' in t or 'expr:expression()' in t:
                r.update(kind='atom')
            else:
                r.update(kind='unrecognised')
            rules.append(r)
    return rules


# ---- reference: C / bash ("ARITHMETIC EVALUATION"), lowest precedence first
REF_LEVELS = [
    [('?:', 'Conditional')],
    [('||', 'LogicalOr')],
    [('&&', 'LogicalAnd')],
    [('|', 'BitwiseOr')],
    [('^', 'BitwiseXor')],
    [('&', 'BitwiseAnd')],
    [('==', 'Equals'), ('!=', 'NotEquals')],
    [('<', 'LessThan'), ('>', 'GreaterThan'), ('<=', 'LessThanOrEqualTo'), ('>=', 'GreaterThanOrEqualTo')],
    [('<<', 'ShiftLeft'), ('>>', 'ShiftRight')],
    [('+', 'Add'), ('-', 'Subtract')],
    [('*', 'Multiply'), ('/', 'Divide'), ('%', 'Modulo')],
    [('**', 'Power')],
    [('!', 'LogicalNot'), ('~', 'BitwiseNot')],
    [('u+', 'UnaryPlus'), ('u-', 'UnaryMinus')],
]
REF = {}
for lvl, ops in enumerate(REF_LEVELS):
    for lit, op in ops:
        REF[lit] = {'level': lvl, 'op': op, 'assoc': 'right' if lit in ('**', '?:') else 'left'}


def b2i(c):
    return z3.If(c, z3.BitVecVal(1, BV), z3.BitVecVal(0, BV))


class Sem:
    """value semantics keyed by AST operator name; collects well-definedness side conditions"""

    def __init__(self):
        self.side = []

    def binary(self, op, x, y):
        Z = z3.BitVecVal(0, BV)
        if op == 'Add': return x + y
        if op == 'Subtract': return x - y
        if op == 'Multiply': return x * y
        if op == 'Divide':
            self.side.append(y != Z); self.side.append(z3.Not(z3.And(y == z3.BitVecVal(-1, BV), x == z3.BitVecVal(1 << 63, BV))))
            return x / y                      # bvsdiv: truncating, as C
        if op == 'Modulo':
            self.side.append(y != Z); self.side.append(z3.Not(z3.And(y == z3.BitVecVal(-1, BV), x == z3.BitVecVal(1 << 63, BV))))
            return z3.SRem(x, y)
        if op == 'ShiftLeft':
            self.side.append(z3.ULT(y, z3.BitVecVal(64, BV))); return x << y
        if op == 'ShiftRight':
            self.side.append(z3.ULT(y, z3.BitVecVal(64, BV))); return x >> y     # arithmetic
        if op == 'LessThan': return b2i(x < y)
        if op == 'GreaterThan': return b2i(x > y)
        if op == 'LessThanOrEqualTo': return b2i(x <= y)
        if op == 'GreaterThanOrEqualTo': return b2i(x >= y)
        if op == 'Equals': return b2i(x == y)
        if op == 'NotEquals': return b2i(x != y)
        if op == 'BitwiseAnd': return x & y
        if op == 'BitwiseOr': return x | y
        if op == 'BitwiseXor': return x ^ y
        if op == 'LogicalAnd': return b2i(z3.And(x != Z, y != Z))
        if op == 'LogicalOr': return b2i(z3.Or(x != Z, y != Z))
        if op == 'Power':
            self.side.append(z3.ULE(y, z3.BitVecVal(2, BV)))
            return z3.If(y == Z, z3.BitVecVal(1, BV), z3.If(y == z3.BitVecVal(1, BV), x, x * x))
        if op == 'Comma': return y
        raise KeyError(op)

    def prefix(self, op, x):
        Z = z3.BitVecVal(0, BV)
        if op == 'LogicalNot': return b2i(x == Z)
        if op == 'BitwiseNot': return ~x
        if op == 'UnaryPlus': return x
        if op == 'UnaryMinus': return -x
        raise KeyError(op)

    def ternary(self, c, t, e):
        return z3.If(c != z3.BitVecVal(0, BV), t, e)


def groups_left(first, second):
    """a OP1 b OP2 c : True = (a OP1 b) OP2 c ; False = a OP1 (b OP2 c); None = the table makes it a parse error (non-assoc)"""
    if first['level'] > second['level']:
        return True
    if first['level'] < second['level']:
        return False
    # same level: peg's precedence! uses the marker on the rule that matched
    a = first['assoc']
    return True if a == 'left' else False if a == 'right' else None


def main():
    path = sys.argv[1]
    budget_ms = int(sys.argv[2]) if len(sys.argv) > 2 else 20000
    src = open(path).read()
    t0 = time.time()
    rules = parse_table(src)
    out = {'source': path, 'rules': len(rules), 'queries': [], 'unrecognised': [r for r in rules if r['kind'] == 'unrecognised'],
           'table': [{k: r.get(k) for k in ('level', 'kind', 'lit', 'op', 'assoc', 'line')} for r in rules if r['kind'] in ('binary', 'prefix', 'ternary')]}
    impl = {}
    for r in rules:
        if r['kind'] == 'binary' and r['lit'] != ',':
            impl[r['lit']] = r
        elif r['kind'] == 'prefix':
            impl['u' + r['lit'] if r['lit'] in '+-' else r['lit']] = r
        elif r['kind'] == 'ternary':
            impl['?:'] = r
    missing = [l for l in REF if l not in impl]
    extra = [l for l in impl if l not in REF]
    out['missing_operators'] = missing
    out['extra_operators'] = extra
    a, b, c, d = z3.BitVecs('a b c d', BV)
    small = [z3.ULT(v, z3.BitVecVal(1 << 16, BV)) for v in (a, b, c, d)]
    solver_s = 0.0

    def decide(name, text, mk_impl, mk_ref):
        nonlocal solver_s
        si, sr = Sem(), Sem()
        ti, tr = mk_impl(si), mk_ref(sr)
        q = {'name': name, 'expr': text}
        if ti is None:
            q.update(verdict='sat', reason='the table gives this operator pair no associativity: brush rejects an expression bash accepts', model={'a': 1, 'b': 1, 'c': 1, 'd': 1})
            out['queries'].append(q)
            return
        s = z3.Solver()
        s.set('timeout', budget_ms)
        s.add(*small)
        s.add(*si.side)
        s.add(*sr.side)
        s.add(ti != tr)
        t1 = time.time()
        res = s.check()
        dt = time.time() - t1
        solver_s += dt
        q['solver_s'] = round(dt, 4)
        if res == z3.unsat:
            q['verdict'] = 'unsat'
        elif res == z3.sat:
            mdl = s.model()
            q['verdict'] = 'sat'
            q['model'] = {str(v): (mdl.eval(v, model_completion=True).as_long()) for v in (a, b, c, d)}
            q['brush_value'] = z3.simplify(z3.substitute(ti, *[(v, z3.BitVecVal(q['model'][str(v)], BV)) for v in (a, b, c, d)])).as_signed_long()
            q['reference_value'] = z3.simplify(z3.substitute(tr, *[(v, z3.BitVecVal(q['model'][str(v)], BV)) for v in (a, b, c, d)])).as_signed_long()
        else:
            q['verdict'] = 'unknown'
            q['reason'] = s.reason_unknown()
        out['queries'].append(q)

    def txt(l):
        return l[1:] if l in ('u+', 'u-') else l

    bins = [l for l in REF if REF[l]['op'] not in ('Conditional', 'LogicalNot', 'BitwiseNot', 'UnaryPlus', 'UnaryMinus') and l in impl]
    pres = [l for l in ('!', '~', 'u+', 'u-') if l in impl]
    # Q1: which operator a literal denotes
    for l in bins:
        decide('denotes:' + l, 'a %s b' % l, lambda s, l=l: s.binary(impl[l]['op'], a, b), lambda s, l=l: s.binary(REF[l]['op'], a, b))
    for l in pres:
        decide('denotes:' + l, '%s a' % txt(l), lambda s, l=l: s.prefix(impl[l]['op'], a), lambda s, l=l: s.prefix(REF[l]['op'], a))
    # Q2: grouping of two binary operators (semantics of each literal taken from the reference so that Q1 and Q2 are independent)
    for l1 in bins:
        for l2 in bins:
            def mk(tab, s, l1=l1, l2=l2):
                g = groups_left(tab[l1], tab[l2])
                if g is None:
                    return None
                o1, o2 = REF[l1]['op'], REF[l2]['op']
                return s.binary(o2, s.binary(o1, a, b), c) if g else s.binary(o1, a, s.binary(o2, b, c))
            decide('group:%s:%s' % (l1, l2), 'a %s b %s c' % (l1, l2), lambda s: mk(impl, s), lambda s: mk(REF, s))
    # Q3: prefix operator against binary operator:  U a OP b
    for u in pres:
        for l in bins:
            def mk(tab, s, u=u, l=l):
                if tab[u]['level'] > tab[l]['level']:
                    return s.binary(REF[l]['op'], s.prefix(REF[u]['op'], a), b)
                return s.prefix(REF[u]['op'], s.binary(REF[l]['op'], a, b))
            decide('prefix:%s:%s' % (u, l), '%s a %s b' % (txt(u), l), lambda s: mk(impl, s), lambda s: mk(REF, s))
    # Q4: conditional operator against binary operators
    if '?:' in impl:
        for l in bins:
            def mk1(tab, s, l=l):      # a OP b ? c : d
                if tab[l]['level'] > tab['?:']['level']:
                    return s.ternary(s.binary(REF[l]['op'], a, b), c, d)
                return s.binary(REF[l]['op'], a, s.ternary(b, c, d))
            def mk2(tab, s, l=l):      # a ? b : c OP d
                if tab[l]['level'] > tab['?:']['level']:
                    return s.ternary(a, b, s.binary(REF[l]['op'], c, d))
                return s.binary(REF[l]['op'], s.ternary(a, b, c), d)
            decide('cond-left:%s' % l, 'a %s b ? c : d' % l, lambda s: mk1(impl, s), lambda s: mk1(REF, s))
            decide('cond-right:%s' % l, 'a ? b : c %s d' % l, lambda s: mk2(impl, s), lambda s: mk2(REF, s))
        # nesting of two conditionals: a ? b : c ? d : a   (right-associative in C)
        def mkc(tab, s):
            if tab['?:']['assoc'] == 'right':
                return s.ternary(a, b, s.ternary(c, d, a))
            return s.ternary(s.ternary(a, b, c), d, a)
        decide('cond-assoc', 'a ? b : c ? d : a', lambda s: mkc(impl, s), lambda s: mkc(REF, s))
    out['solver_s'] = round(solver_s, 3)
    out['wall_s'] = round(time.time() - t0, 3)
    out['z3'] = z3.get_version_string()
    json.dump(out, sys.stdout)


if __name__ == '__main__':
    main()
