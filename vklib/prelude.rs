// Shared helpers for every generated harness module of one crate (compiled only under cfg(kani)).
#![allow(dead_code, unused, clippy::all, clippy::pedantic, clippy::nursery, missing_docs, unsafe_code)]

/// Stub for `std::hash::RandomState::new`: fixed keys (hash *order* is not observed by any harness).
pub fn stub_random_state_new() -> std::hash::RandomState {
    // SAFETY: RandomState is two u64 keys.
    unsafe { std::mem::transmute::<[u64; 2], std::hash::RandomState>([0u64, 0u64]) }
}

/// Stub for `std::time::SystemTime::now`.
pub fn stub_now() -> std::time::SystemTime {
    std::time::UNIX_EPOCH
}

/// Stub for `alloc::fmt::format`: formatting of diagnostics is not the subject of any harness.
pub fn stub_fmt_format(_a: std::fmt::Arguments<'_>) -> String {
    String::new()
}

/// Unwrap an `Ok`; an `Err` ends the path (assume(false)) without running drop glue.
pub fn vk_ok<T, E>(r: Result<T, E>) -> T {
    match r {
        Ok(v) => v,
        Err(e) => {
            std::mem::forget(e);
            kani::assume(false);
            unreachable!()
        }
    }
}

/// True if the result is `Err`; the value is forgotten (no drop glue explored).
pub fn vk_is_err<T, E>(r: Result<T, E>) -> bool {
    let b = r.is_err();
    std::mem::forget(r);
    b
}

/// Symbolic value below a bound.
pub fn any_below(n: u8) -> u8 {
    let v: u8 = kani::any();
    kani::assume(v < n);
    v
}
