// Shared helpers for every generated harness module of one crate (compiled only under cfg(kani)).
#![allow(dead_code, unused, clippy::all, clippy::pedantic, clippy::nursery, missing_docs, unsafe_code)]

/// Stub for `std::hash::RandomState::new`: fixed keys (hash *order* is not observed by any harness).
pub fn stub_random_state_new() -> std::hash::RandomState {
    // SAFETY: RandomState is two u64 keys.
    unsafe { std::mem::transmute::<[u64; 2], std::hash::RandomState>([0u64, 0u64]) }
}

/// Stub for `std::time::SystemTime::now`.
pub fn stub_now() -> std::time::SystemTime {
    std::time::UNIX_EPOCH
}

/// Stub for `alloc::fmt::format`: formatting of diagnostics is not the subject of any harness.
pub fn stub_fmt_format(_a: std::fmt::Arguments<'_>) -> String {
    String::new()
}

/// Unwrap an `Ok`; an `Err` ends the path (assume(false)) without running drop glue.
pub fn vk_ok<T, E>(r: Result<T, E>) -> T {
    match r {
        Ok(v) => v,
        Err(e) => {
            std::mem::forget(e);
            kani::assume(false);
            unreachable!()
        }
    }
}

/// True if the result is `Err`; the value is forgotten (no drop glue explored).
pub fn vk_is_err<T, E>(r: Result<T, E>) -> bool {
    let b = r.is_err();
    std::mem::forget(r);
    b
}

/// Symbolic value below a bound.
pub fn any_below(n: u8) -> u8 {
    let v: u8 = kani::any();
    kani::assume(v < n);
    v
}

// ---------------------------------------------------------------------------------------------------------------------------
/// Array-backed stand-in for `Vec` (capacity 6, dense initialised prefix of `MaybeUninit` slots - no niche-encoded `Option`s, see
/// DESIGN 6.2). Harness modules import it as `Vec` (plus a local `vec!` macro) so that lifted text compiles unchanged while CBMC
/// never sees a `memmove` with a symbolic length or an allocation.
pub struct ArrVec<T> { pub v: [core::mem::MaybeUninit<T>; 6], pub n: usize }
impl<T> ArrVec<T> {
    pub fn new() -> Self { ArrVec { v: [core::mem::MaybeUninit::uninit(), core::mem::MaybeUninit::uninit(), core::mem::MaybeUninit::uninit(), core::mem::MaybeUninit::uninit(), core::mem::MaybeUninit::uninit(), core::mem::MaybeUninit::uninit()], n: 0 } }
    pub fn with_capacity(_c: usize) -> Self { Self::new() }
    pub fn len(&self) -> usize { self.n }
    pub fn is_empty(&self) -> bool { self.n == 0 }
    pub fn push(&mut self, t: T) { assert!(self.n < 6, "mock vec capacity"); let n = self.n; self.v[n].write(t); self.n += 1; }
    pub fn pop(&mut self) -> Option<T> { if self.n == 0 { None } else { self.n -= 1; let n = self.n; Some(unsafe { self.v[n].assume_init_read() }) } }
    pub fn remove(&mut self, i: usize) -> T {
        assert!(i < self.n, "removal index out of bounds");
        let r = unsafe { self.v[i].assume_init_read() };
        let mut k = 0;
        while k < 5 { if k >= i && k + 1 < self.n { let nx = unsafe { self.v[k + 1].assume_init_read() }; self.v[k].write(nx); } k += 1; }
        self.n -= 1;
        r
    }
    pub fn swap_remove(&mut self, i: usize) -> T {
        assert!(i < self.n, "swap_remove index out of bounds");
        let r = unsafe { self.v[i].assume_init_read() }; let last = self.n - 1;
        if i != last { let l = unsafe { self.v[last].assume_init_read() }; self.v[i].write(l); }
        self.n -= 1;
        r
    }
    pub fn append(&mut self, other: &mut ArrVec<T>) { let mut k = 0; while k < 6 { if k < other.n { let x = unsafe { other.v[k].assume_init_read() }; self.push(x); } k += 1; } other.n = 0; }
    pub fn last(&self) -> Option<&T> { if self.n == 0 { None } else { Some(unsafe { self.v[self.n - 1].assume_init_ref() }) } }
    pub fn last_mut(&mut self) -> Option<&mut T> { if self.n == 0 { None } else { let n = self.n - 1; Some(unsafe { self.v[n].assume_init_mut() }) } }
    pub fn first(&self) -> Option<&T> { if self.n == 0 { None } else { Some(unsafe { self.v[0].assume_init_ref() }) } }
    pub fn get(&self, i: usize) -> Option<&T> { if i < self.n { Some(unsafe { self.v[i].assume_init_ref() }) } else { None } }
    pub fn get_mut(&mut self, i: usize) -> Option<&mut T> { if i < self.n { Some(unsafe { self.v[i].assume_init_mut() }) } else { None } }
    pub fn iter(&self) -> std::iter::Map<std::iter::Take<std::slice::Iter<'_, core::mem::MaybeUninit<T>>>, fn(&core::mem::MaybeUninit<T>) -> &T> { let n = self.n; self.v.iter().take(n).map(arr_init_ref as fn(&core::mem::MaybeUninit<T>) -> &T) }
    pub fn iter_mut(&mut self) -> std::iter::Map<std::iter::Take<std::slice::IterMut<'_, core::mem::MaybeUninit<T>>>, fn(&mut core::mem::MaybeUninit<T>) -> &mut T> { let n = self.n; self.v.iter_mut().take(n).map(arr_init_mut as fn(&mut core::mem::MaybeUninit<T>) -> &mut T) }
    pub fn retain<F: FnMut(&T) -> bool>(&mut self, mut f: F) { let mut i = 0; while i != self.n { if f(unsafe { self.v[i].assume_init_ref() }) { i += 1; } else { let t = self.remove(i); std::mem::forget(t); } } }
}
pub fn arr_init_mut<T>(m: &mut core::mem::MaybeUninit<T>) -> &mut T { unsafe { m.assume_init_mut() } }
pub fn arr_init_ref<T>(m: &core::mem::MaybeUninit<T>) -> &T { unsafe { m.assume_init_ref() } }
impl<T> Default for ArrVec<T> { fn default() -> Self { Self::new() } }
impl<T> std::ops::Index<usize> for ArrVec<T> { type Output = T; fn index(&self, i: usize) -> &T { assert!(i < self.n, "index out of bounds"); unsafe { self.v[i].assume_init_ref() } } }
impl<T> std::ops::IndexMut<usize> for ArrVec<T> { fn index_mut(&mut self, i: usize) -> &mut T { assert!(i < self.n, "index out of bounds"); unsafe { self.v[i].assume_init_mut() } } }
impl<'a, T> IntoIterator for &'a mut ArrVec<T> { type Item = &'a mut T; type IntoIter = std::iter::Map<std::iter::Take<std::slice::IterMut<'a, core::mem::MaybeUninit<T>>>, fn(&'a mut core::mem::MaybeUninit<T>) -> &'a mut T>; fn into_iter(self) -> Self::IntoIter { let n = self.n; self.v.iter_mut().take(n).map(arr_init_mut as fn(&'a mut core::mem::MaybeUninit<T>) -> &'a mut T) } }
impl<'a, T> IntoIterator for &'a ArrVec<T> { type Item = &'a T; type IntoIter = std::iter::Map<std::iter::Take<std::slice::Iter<'a, core::mem::MaybeUninit<T>>>, fn(&'a core::mem::MaybeUninit<T>) -> &'a T>; fn into_iter(self) -> Self::IntoIter { let n = self.n; self.v.iter().take(n).map(arr_init_ref as fn(&'a core::mem::MaybeUninit<T>) -> &'a T) } }
pub struct ArrIntoIter<T> { pub a: ArrVec<T>, pub i: usize }
impl<T> Iterator for ArrIntoIter<T> { type Item = T; fn next(&mut self) -> Option<T> { if self.i < self.a.n { let i = self.i; self.i += 1; Some(unsafe { self.a.v[i].assume_init_read() }) } else { None } } }
impl<T> IntoIterator for ArrVec<T> { type Item = T; type IntoIter = ArrIntoIter<T>; fn into_iter(self) -> ArrIntoIter<T> { ArrIntoIter { a: self, i: 0 } } }
impl<T> std::iter::FromIterator<T> for ArrVec<T> { fn from_iter<I: IntoIterator<Item = T>>(it: I) -> Self { let mut v = ArrVec::new(); for x in it { v.push(x); } v } }
