"""Per-property manifest data (what is claimed, at which level, and why the rest is not applicable)."""

TECH = 'solver-based: bounded model checking of code lifted from the current source (Kani 0.68 / CBMC 6.11 / cadical SAT) with symbolic inputs and oracle children, unwinding assertions on, counterexamples replayed natively'
TECH_SMT = TECH + '; plus z3 (QF_BV) queries over the operator table translated from the grammar source, counterexamples replayed against brush and bash'

CLAIMED = {
    'C01': dict(
        text='Bounded panic-freedom of the integer-handling kernels behind the grammars (substring clamp, brace sequences, PEG number actions, integer-attribute append, array key arithmetic, arithmetic operator tables, pow, loop-level decrement, radix literals) and the recursion-depth guard of arithmetic variable dereference (subscripts evaluated at the caller\'s depth, contents at depth+1, the limit is an error - so self-referential variables end in a diagnostic, not a stack overflow); an alias in command position that expands to nothing; the listing count of `history N`; a background job or a `wait` tripping over a job that ended in an error: CBMC decides Kani\'s implicit overflow / bounds / unwrap obligations for every i64 / byte value inside the stated shapes. Not the whole statement: tokenizer, PEG grammars and string paths are outside (DESIGN 4/C01).',
        note='Trusted: rustc, Kani, CBMC, cadical; tracing stub crate; lifting recipes (a stale recipe yields inconclusive, never a violation). Strings and containers have concrete shapes.',
        ref='4/C01'),
    'C02': dict(
        text='Per-construct contracts of the AST interpreter: de-async transplants of the real bodies of AndOrList / CompoundList / if / while-until / for / arithmetic-for / case / pipeline / function-call execute, with children replaced by oracles returning arbitrary (status, control-flow) results; the solver decides which children run, in which order, and the resulting (status, flow, $?) against reference rules from POSIX/bash for all child outcomes within the shapes; the bodies of the break / continue / return / exit builtins from the parsed argument on; exit / return / break requests passing through a pipeline (`!` does not invert them, a stage that ran in its own subshell keeps them to itself); a failing redirection on a compound command completes it with status 1. Composition to nested programs follows by structural induction (DESIGN 3.2).',
        note='Outside: leaf command dispatch, eval/source, the parser, the argument parsers (clap) of the builtins. Reference rules are mine (cross-checked with bash on a smoke list).',
        ref='4/C02'),
    'C03': dict(
        text='Exemption-flag contracts: every child in condition position / non-final and-or operand / under `!` is handed suppress_errexit=true, every other child exactly its parent\'s flag; errexit is applied once per pipeline iff enabled and not suppressed; pipefail/PIPESTATUS fold; nounset decision table and flag propagation through direct and indirect lookups; the exemption flag and the errexit option handed to a command substitution; the errexit option is read when the pipeline ends (the command may switch it); every parameter lookup that finds no value ends in the nounset decision; an operand word that is not used is never expanded. Decided for all child outcomes and flag values within the shapes.',
        note='Outside: what runs inside a command substitution after the flags are handed over, option toggling through `set`, errtrace, special parameters, `${#a[@]}` / arithmetic on unset names.',
        ref='4/C03'),
    'C06': dict(
        text='Index arithmetic of ${v:o:l} for every i64 offset/length (callee precondition 0<=start<=end<=len), shortest/longest prefix/suffix search against an oracle regex engine (all 2^8 match tables on concrete subjects), the set/unset/null decision table of :- := :+ :?. Not the whole statement (operator recognition, slicing of contents, ${v/p/r}, case modification are outside).',
        note='fancy-regex is replaced by an oracle whose is_match answers from a symbolic table indexed by candidate length; subjects are concrete strings of <= 3 characters.',
        ref='4/C06'),
    'C07': dict(
        text='Evaluation kernels against two\'s-complement C semantics for every pair of i64 operands: the lifted operator table of apply_binary_op, unary and increment tables, short-circuit prefix, wrapping_pow_u64 (bounded exponent), parse_shell_literal_number on 2 symbolic bytes x symbolic radix, hex / octal / decimal constants of any value (wrap modulo 2^64 like bash), the subscript of a read-modify-write target evaluated exactly once, integer-attribute append arithmetic, the dispatch contract of eval_expr_impl (x op= e reads x before evaluating e; ?: evaluates only the selected branch) and the recursion-depth discipline. Precedence, associativity and the literal->operator mapping of the PEG precedence! table are decided by z3: for every operator, every ordered pair of binary operators, prefix x binary and ?: x binary, brush\'s value of the two-operator expression equals C\'s for all operand values in range (499 queries).',
        note='For * / % the reference uses the same wrapping primitive (64-bit divider equivalence does not finish); assertion is on guards and operand order.',
        ref='4/C07'),
    'C09': dict(
        text='Scope-stack discipline of env.rs (re-instantiated over a 2-slot map and a light variable stand-in) and readonly discipline / assignment-kind table of variables.rs (re-instantiated over a counting array map): for symbolic presence / readonly / exported flags and symbolic choice of operation, lookups, shadowing, pop restoration and readonly rejection with zero container mutations are decided by the solver; the temporary-assignment protocol of execute_command (one Command scope, assignments inside it, popped on every path incl. a failing assignment) and the post_execute hook running exactly once on every dispatch path of a simple command; what child processes are given for a name with two bindings (the innermost exported binding that has a value), a new local taking over the export attribute of what it shadows, and a readonly global that cannot be shadowed by a local or a temporary assignment; the attribute flags of declare / local.',
        note='The std HashMap/BTreeMap contract is assumed by the array-backed stand-ins; builtins that call these APIs are outside.',
        ref='4/C09'),
    'C10': dict(
        text='Open-mode and descriptor-number selection of setup_redirect for all 7 redirection kinds x noclobber x target-exists x explicit fd 0..9|absent, against the POSIX 2.7 / bash table, with OpenOptions bound to a duck-typed flag recorder; the noclobber test probes the file the redirection opens; descriptor duplication, closing and moving (N>&M, N>&-, N>&M-) on a 10-slot table; items of a simple command strictly left to right; redirections of a compound command (a failing one gives status 1); here-document expansion decided by the opening tag; an external command finds on descriptors 0-2 the open files the shell has there. What a descriptor is connected to (kernel), restoration by ownership, here-document bodies and the tokenizer are outside.',
        note='Path::is_file is a symbolic boolean; the real Shell supplies the noclobber option.',
        ref='4/C10'),
    'C11': dict(
        text='Pipeline wiring and start-before-wait protocol: transplant of spawn_pipeline_processes with pipe creation and stage launch as oracles (descriptors are tokens): N-1 pipes, stage k stdout -> stage k+1 stdin, one writer and one reader per pipe, only the last stage may run in the parent shell, no writer run to completion before its reader starts (known finding D15); command substitution: program started, output drained to EOF before the join, status recorded once, the drained text independent of read boundaries; `read` stops exactly at the first unescaped delimiter; PIPESTATUS / pipefail fold, PIPESTATUS of grouping commands; a substitution\'s status is seen even when equal to the previous one. Liveness under pipe capacity, scheduling and SIGPIPE are outside.',
        note='Fully duck-typed environment; 2-4 stages.',
        ref='4/C11'),
    'C16': dict(
        text='Trap protocol, one inductive step: transplants of invoke_trap_handler / on_exit / run_dash_c_command / run_script on a real Shell with the handler run, lookup and re-entrancy state as symbolic oracles: handler runs at most once strictly between enter and leave on every path, $? is restored, nothing runs if already active; one nested ERR-inside-EXIT step restores the terminating status; run_parsed_result never returns Err; on_exit is reached exactly once, after the program and with its status, on every path of the -c, script and stdin / interactive front-ends; `exit` inside an ERR handler ends the shell, exit / return requests are not inverted by `!` (known finding D28: they still fire the ERR trap); the trap-delivery block taken around completion functions is released on every way out.',
        note='brush-shell entry.rs argument handling, `exit` inside the EXIT handler, exec, signal traps are outside.',
        ref='4/C16'),
    'C17': dict(
        text='Job-table bookkeeping as one inductive step from an arbitrary valid table (<= 3 live jobs, symbolic ids): add_as_current yields an id distinct from every live id (confirmed at history level: add, add, add, poll with symbolic completions, add from the empty table); transplants of wait_all / Job::wait / sweep / poll on a duck-typed table: wait_all returns only after every task of every job was awaited to completion, finished jobs reported once and removed, stopped jobs kept; a job that ended in an error neither cuts `wait` short nor is awaited twice; an entry waited for individually keeps its job number until swept; a background list reports its own fatal error and never hands it to `wait`.',
        note='That awaiting a task implies its effects are visible is a tokio/kernel property and outside; so are output ordering and the builtins.',
        ref='4/C17'),
    'C18': dict(
        text='Frame / scope pairing at the call sites: transplants of invoke_shell_function, enter/leave_function, source_file, run_dash_c_command, invoke_trap_handler, execute_command (temporary-assignment scope via the lifted ScopeGuard) and the five dispatch functions of SimpleCommand (post_execute exactly once) with push/pop as counting oracles and children returning arbitrary Ok/Err: pops == pushes on every path, body strictly between; push/pop symmetry discharged on callstack.rs re-instantiated over array containers.',
        note='Descriptors, zombies and Arc handle lifetimes are kernel/runtime state and outside.',
        ref='4/C18'),
    'C20': dict(
        text='Save protocol of History::flush: block lift of the body with the file system and containers bound to duck-typed recorders, over all sequences of <= 3 saves with symbolic (append, unsaved_only) and symbolic dirty flags: no item is written twice within a truncation epoch, order preserved, a save following a save adds nothing (known finding D14 for a full write followed by an append save); with a write fault at a symbolic point an item is marked saved only after its line reached the file, so the next save completes the job; reload (History::import): items are the command lines in order, all marked saved, a timestamp consumed by exactly the next command; the listing count of `history N`.',
        note='The real rpds containers, add/remove, HISTCONTROL-style policies and multi-session interleavings are outside.',
        ref='4/C20'),
}

CLAIMED['C19'] = dict(
    text='The tiling invariant of the highlighter as one inductive step with NO assumption on the parsers: the lifted append_span + floor_char_boundary keep "spans start where the previous one ended, are non-empty, lie inside the line, have both ends on character boundaries; the cursor never moves back" for every range over all of usize (reversed, behind the cursor, past the end, inside a character) on lines of 0..8 bytes with a symbolic character-boundary bitmap (multi-byte text); highlight_word_piece (11 piece kinds) and the token loop body preserve it for arbitrary offsets; highlight_command end to end (tokens anywhere: out of order, overlapping, out of range; tokenizer / word-parse errors) hands back spans that tile [0, len) exactly.',
    note='Outside: panics or non-termination inside the tokenizer and word::parse themselves (strings, PEG), which colour a range gets. Whole-line harnesses use append_span through the post-condition proved by the step harness.',
    ref='9')

NOT_APPLICABLE = {
    'C04': 'Every kernel is a string transformer (split_fields, double-quote processing, regex escaping, word::parse); one symbolic byte through split_fields does not finish in 600 s under CBMC (DESIGN 2, 4/C04).',
    'C05': 'Brace expansion, word::parse, glob translation and directory walking: three PEG grammars, strings and the filesystem - not encodable within reach (DESIGN 4/C05).',
    'C08': 'Matching = PEG pattern translation + fancy-regex backtracking VM + directory reads; the grammar on 2 symbolic bytes did not finish in 25 min (DESIGN 4/C08).',
    'C12': 'What a clone-based subshell can leak is process-global kernel state (umask, rlimits, descriptors): system calls with no solver model; inside the clone isolation is Rust ownership (DESIGN 4/C12).',
    'C13': 'String in, string out: one symbolic byte through single_quote / ansi_c_quote plus a reader times out at 600 s; even the octal formatter alone does not finish (DESIGN 4/C13).',
    'C14': 'Needs parse(print(ast)): tokenizer and program grammar on partly symbolic text (DESIGN 4/C14).',
    'C15': 'Completeness decision and caches sit on the tokenizer / PEG; the `cached` crate triggers a Kani ICE (DESIGN 4/C15).',
}

NOT_BUILT = 'claimed in DESIGN.md but its check is not built yet in this revision; not claimed until it is'
