"""Kernel lifting: extract statements from the *current* source text of /repo (scratch copy).

A recipe is a dict:
  file      path relative to the repository root
  start     regex (re.M) locating the anchor; the lifted region begins according to `mode`
  mode      'fn_body'   : text strictly inside the braces of the first `{` at/after the anchor match end
                          (the anchor is normally the `fn name(` text; the signature is skipped by
                          scanning to the first `{` at paren/angle depth 0)
            'block'     : the balanced `{...}` block that starts at the first `{` at/after the
                          anchor match START, *including* everything from anchor start to the closing brace
                          (used for `match kind {…}`, `if … {…}` statements)
            'until'     : from anchor match start up to (not including) the match of `end`
            'item'      : from anchor start to the closing brace of the first top-level `{` (a whole fn/impl item)
            'file'      : the whole file (module re-instantiation)
  end       regex for mode 'until'
  nth       which match of `start` to use (default 0)
  self_type path that `Self::` is rewritten to (associated functions of the real type)
  rewrites  list of [regex, replacement, min_count]  (re.M | re.S as given in pattern flags (?s))
  self_to   if set, replace \\bself\\b by this identifier
  deasync   if true, drop `.await`
  if_absent text used as the body when the anchor does not exist in this tree (helper functions only: unreachable then)
A stale recipe (anchor not found / rewrite count below min) raises StaleRecipe.
"""
import hashlib
import re


class StaleRecipe(Exception):
    pass


def _skip_string(s, i):
    """s[i] == '"' ; return index after closing quote"""
    n = len(s)
    i += 1
    while i < n:
        c = s[i]
        if c == '\\':
            i += 2
            continue
        if c == '"':
            return i + 1
        i += 1
    return n


def _skip_raw_string(s, i):
    """s[i] == 'r' and looks like r#*" ; return index after closing, or None if not a raw string"""
    j = i + 1
    hashes = 0
    n = len(s)
    while j < n and s[j] == '#':
        hashes += 1
        j += 1
    if j >= n or s[j] != '"':
        return None
    j += 1
    term = '"' + '#' * hashes
    k = s.find(term, j)
    if k < 0:
        return n
    return k + len(term)


def _skip_char_or_lifetime(s, i):
    """s[i] == "'" ; char literal or lifetime. Return index after."""
    n = len(s)
    if i + 1 < n and s[i + 1] == '\\':
        # escaped char literal
        j = i + 2
        while j < n and s[j] != "'":
            j += 1
        return j + 1
    if i + 2 < n and s[i + 2] == "'":
        return i + 3
    # multi-byte char literal?  e.g. '日'
    m = re.match(r"'[^'\\\n]'", s[i:i + 8])
    if m:
        return i + m.end()
    # lifetime: skip the quote only
    return i + 1


def scan(s, i, on_char):
    """Walk s from i, skipping comments/strings/chars; call on_char(idx, ch) for code chars.
    on_char returns True to stop. Returns stop index or len(s)."""
    n = len(s)
    while i < n:
        c = s[i]
        if c == '/' and i + 1 < n and s[i + 1] == '/':
            j = s.find('\n', i)
            i = n if j < 0 else j
            continue
        if c == '/' and i + 1 < n and s[i + 1] == '*':
            depth = 1
            i += 2
            while i < n and depth:
                if s.startswith('/*', i):
                    depth += 1
                    i += 2
                elif s.startswith('*/', i):
                    depth -= 1
                    i += 2
                else:
                    i += 1
            continue
        if c == '"':
            i = _skip_string(s, i)
            continue
        if c == 'r' and i + 1 < n and s[i + 1] in '#"' and (i == 0 or not (s[i - 1].isalnum() or s[i - 1] == '_')):
            j = _skip_raw_string(s, i)
            if j is not None:
                i = j
                continue
        if c == 'b' and i + 1 < n and s[i + 1] == '"' and (i == 0 or not (s[i - 1].isalnum() or s[i - 1] == '_')):
            i = _skip_string(s, i + 1)
            continue
        if c == "'":
            i = _skip_char_or_lifetime(s, i)
            continue
        if on_char(i, c):
            return i
        i += 1
    return n


def find_open_brace(s, i):
    """first `{` at paren/bracket depth 0 at or after i (code only)"""
    st = {'p': 0}

    def f(idx, ch):
        if ch in '([':
            st['p'] += 1
        elif ch in ')]':
            st['p'] -= 1
        elif ch == '{' and st['p'] <= 0:
            return True
        return False
    j = scan(s, i, f)
    if j >= len(s):
        raise StaleRecipe('no opening brace after anchor')
    return j


def match_brace(s, i):
    """s[i] == '{' ; index of matching '}'"""
    assert s[i] == '{'
    st = {'d': 0}

    def f(idx, ch):
        if ch == '{':
            st['d'] += 1
        elif ch == '}':
            st['d'] -= 1
            if st['d'] == 0:
                return True
        return False
    j = scan(s, i, f)
    if j >= len(s):
        raise StaleRecipe('unbalanced braces')
    return j


def line_of(s, idx):
    return s.count('\n', 0, idx) + 1


def lift(recipe, read_file):
    """returns dict(text, file, line_start, line_end, sha256, raw_sha256)"""
    src = read_file(recipe['file'])
    mode = recipe.get('mode', 'fn_body')
    if mode == 'file':
        a, b = 0, len(src)
    else:
        ms = list(re.finditer(recipe['start'], src, re.M))
        nth = recipe.get('nth', 0)
        if len(ms) <= nth and 'if_absent' in recipe:
            # a helper that does not exist in this tree: nothing in the lifted code can call it (the tree compiles), so the
            # stand-in body is unreachable; it only has to type-check
            t = recipe['if_absent']
            return {'text': t, 'file': recipe['file'], 'line_start': 0, 'line_end': 0,
                    'sha256': hashlib.sha256(t.encode()).hexdigest(), 'raw_sha256': hashlib.sha256(t.encode()).hexdigest(), 'absent': True}
        if len(ms) <= nth:
            raise StaleRecipe("anchor %r not found (match #%d) in %s" % (recipe['start'], nth, recipe['file']))
        m = ms[nth]
        if mode == 'fn_body':
            ob = find_open_brace(src, m.end())
            cb = match_brace(src, ob)
            a, b = ob + 1, cb
        elif mode == 'block':
            ob = find_open_brace(src, m.start())
            cb = match_brace(src, ob)
            a, b = m.start(), cb + 1
        elif mode == 'item':
            ob = find_open_brace(src, m.start())
            cb = match_brace(src, ob)
            a, b = m.start(), cb + 1
        elif mode == 'until':
            me = re.compile(recipe['end'], re.M).search(src, m.end())
            if not me:
                raise StaleRecipe("end anchor %r not found in %s" % (recipe['end'], recipe['file']))
            a, b = m.start(), me.start()
        else:
            raise ValueError(mode)
    raw = src[a:b]
    text = raw
    if recipe.get('peg_action'):
        # `{? ... }` fallible PEG action: the body starts after the question mark
        if text.startswith('?'):
            text = text[1:]
    if recipe.get('deasync'):
        text = re.sub(r'\s*\.await\b', '', text)
    if recipe.get('self_to'):
        text = re.sub(r'\bself\b', recipe['self_to'], text)
    if recipe.get('self_type'):
        # associated functions (`Self::helper(..)`, e.g. a helper a refactoring extracted) resolve to the real type's
        text = re.sub(r'\bSelf::', recipe['self_type'] + '::', text)
    for rw in recipe.get('rewrites', []):
        pat, rep = rw[0], rw[1]
        mn = rw[2] if len(rw) > 2 else 1
        text, k = re.subn(pat, rep, text, flags=re.M)
        if k < mn:
            raise StaleRecipe("rewrite %r matched %d < %d times in lifted text of %s" % (pat, k, mn, recipe['file']))
    return {
        'text': text,
        'file': recipe['file'],
        'line_start': line_of(src, a),
        'line_end': line_of(src, b),
        'raw_sha256': hashlib.sha256(raw.encode()).hexdigest(),
        'sha256': hashlib.sha256(text.encode()).hexdigest(),
        'mode': mode,
    }
