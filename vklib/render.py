"""Shell-level rendering of solver assignments (optional, per harness family)."""


def render(proof, result):
    fn = RENDERERS.get(proof.get('render'))
    if not fn:
        return None
    return fn(proof, result)


RENDERERS = {}
