/*@meta
{
 'package': 'brush-core',
 'host': 'brush-core/src/variables.rs',
 'heavy': True,
 'stubs': ['tracing -> no-op stub crate',
           'module re-instantiation: the whole text of variables.rs is compiled a second time inside the harness module with `std::collections::BTreeMap` replaced by a 3-slot array map that counts structural mutations (insert / remove)'],
 'assumptions': ['the std BTreeMap contract is what the 3-slot map implements (<= 3 elements per array)', 'element contents are concrete one-character or empty strings; the integer attribute and case transforms are off (their arithmetic is under C07 / outside)'],
 'out_of_claim': ['the real BTreeMap', 'how declare / local / export / read / printf -v / getopts / mapfile call these APIs', '-l / -u / -c value transformations and -i evaluation', 'dynamic variables'],
}
@*/
/*@recipes
{
 'variables_file': {'file': 'brush-core/src/variables.rs', 'mode': 'file',
        'rewrites': [[r'^//![^\n]*$', r'', 1],
                     [r'use std::collections::BTreeMap;', r'use super::mockmap::BTreeMap;', 1],
                     [r'(?s)#\[cfg\(test\)\]\s*mod tests \{.*\Z', r'', 0]]},
}
@*/
use crate::vk_prelude::*;

pub mod mockmap {
    // Array-backed ordered map with the slice of the BTreeMap API that variables.rs uses.
    // `mutations` counts every structural change (insert / remove).
    #[derive(Clone, Debug)]
    pub struct BTreeMap<K, V> { pub slots: [Option<(K, V)>; 3], pub mutations: usize }
    impl<K: Ord + Clone, V> Default for BTreeMap<K, V> { fn default() -> Self { Self::new() } }
    impl<K: Ord + Clone, V> BTreeMap<K, V> {
        pub fn new() -> Self { Self { slots: [None, None, None], mutations: 0 } }
        pub fn len(&self) -> usize { let mut n = 0; let mut i = 0; while i < 3 { if self.slots[i].is_some() { n += 1; } i += 1; } n }
        pub fn is_empty(&self) -> bool { self.len() == 0 }
        pub fn clear(&mut self) { self.mutations += 1; self.slots = [None, None, None]; }
        pub fn insert(&mut self, k: K, v: V) -> Option<V> {
            self.mutations += 1;
            let mut i = 0;
            while i < 3 { if let Some((ek, _)) = &self.slots[i] { if *ek == k { let old = self.slots[i].take(); self.slots[i] = Some((k, v)); return old.map(|(_, v)| v); } } i += 1; }
            let mut i = 0;
            while i < 3 { if self.slots[i].is_none() { self.slots[i] = Some((k, v)); return None; } i += 1; }
            panic!("mock map capacity");
        }
        pub fn get<Q: ?Sized>(&self, k: &Q) -> Option<&V> where K: std::borrow::Borrow<Q>, Q: Ord {
            let mut i = 0;
            while i < 3 { if let Some((ek, ev)) = &self.slots[i] { if ek.borrow() == k { return Some(ev); } } i += 1; }
            None
        }
        pub fn get_mut<Q: ?Sized>(&mut self, k: &Q) -> Option<&mut V> where K: std::borrow::Borrow<Q>, Q: Ord {
            let mut hit = 3; let mut i = 0;
            while i < 3 { if let Some((ek, _)) = &self.slots[i] { if ek.borrow() == k && hit == 3 { hit = i; } } i += 1; }
            if hit < 3 { self.slots[hit].as_mut().map(|(_, v)| v) } else { None }
        }
        pub fn contains_key<Q: ?Sized>(&self, k: &Q) -> bool where K: std::borrow::Borrow<Q>, Q: Ord { self.get(k).is_some() }
        pub fn remove<Q: ?Sized>(&mut self, k: &Q) -> Option<V> where K: std::borrow::Borrow<Q>, Q: Ord {
            let mut i = 0;
            while i < 3 { let hit = if let Some((ek, _)) = &self.slots[i] { ek.borrow() == k } else { false }; if hit { self.mutations += 1; return self.slots[i].take().map(|(_, v)| v); } i += 1; }
            None
        }
        pub fn last_key_value(&self) -> Option<(&K, &V)> {
            let mut best: Option<(&K, &V)> = None; let mut i = 0;
            while i < 3 { if let Some((ek, ev)) = &self.slots[i] { if best.map_or(true, |(bk, _)| ek > bk) { best = Some((ek, ev)); } } i += 1; }
            best
        }
        pub fn first_key_value(&self) -> Option<(&K, &V)> {
            let mut best: Option<(&K, &V)> = None; let mut i = 0;
            while i < 3 { if let Some((ek, ev)) = &self.slots[i] { if best.map_or(true, |(bk, _)| ek < bk) { best = Some((ek, ev)); } } i += 1; }
            best
        }
        pub fn iter(&self) -> impl Iterator<Item = (&K, &V)> { self.slots.iter().filter_map(|s| s.as_ref().map(|(k, v)| (k, v))) }
        pub fn keys(&self) -> impl Iterator<Item = &K> { self.iter().map(|(k, _)| k) }
        pub fn values(&self) -> impl Iterator<Item = &V> { self.iter().map(|(_, v)| v) }
    }
    impl<'a, K: Ord + Clone, V> IntoIterator for &'a BTreeMap<K, V> {
        type Item = (&'a K, &'a V);
        type IntoIter = std::vec::IntoIter<(&'a K, &'a V)>;
        fn into_iter(self) -> Self::IntoIter { let v: Vec<_> = self.slots.iter().filter_map(|s| s.as_ref().map(|(k, v)| (k, v))).collect(); v.into_iter() }
    }
}

#[allow(unnameable_types, missing_docs, dead_code, unused)]
pub mod rehosted {
/*@LIFT variables_file*/
}
use rehosted::{ArrayLiteral, ShellValue, ShellValueLiteral, ShellValueUnsetType, ShellVariable};

fn muts(v: &ShellVariable) -> usize {
    match v.value() { ShellValue::IndexedArray(m) => m.mutations, ShellValue::AssociativeArray(m) => m.mutations, _ => 0 }
}
/// 0 unset-untyped, 1 unset-indexed, 2 unset-assoc, 3 string, 4 indexed, 5 assoc
fn kind(v: &ShellVariable) -> u8 {
    match v.value() {
        ShellValue::Unset(ShellValueUnsetType::Untyped) => 0, ShellValue::Unset(ShellValueUnsetType::IndexedArray) => 1, ShellValue::Unset(ShellValueUnsetType::AssociativeArray) => 2,
        ShellValue::String(_) => 3, ShellValue::IndexedArray(_) => 4, ShellValue::AssociativeArray(_) => 5, _ => 9,
    }
}
fn nelems(v: &ShellVariable) -> usize {
    match v.value() { ShellValue::IndexedArray(m) => m.len(), ShellValue::AssociativeArray(m) => m.len(), _ => 0 }
}
fn mk(k: u8) -> ShellVariable {
    match k {
        0 => ShellVariable::new(ShellValue::Unset(ShellValueUnsetType::Untyped)),
        1 => ShellVariable::new(ShellValue::Unset(ShellValueUnsetType::IndexedArray)),
        2 => ShellVariable::new(ShellValue::Unset(ShellValueUnsetType::AssociativeArray)),
        3 => ShellVariable::new(ShellValue::String(String::new())),
        4 => { let mut m = mockmap::BTreeMap::<u64, String>::new(); m.slots[0] = Some((0, String::new())); ShellVariable::new(ShellValue::IndexedArray(m)) }
        _ => { let mut m = mockmap::BTreeMap::<String, String>::new(); m.slots[0] = Some((String::from("0"), String::new())); ShellVariable::new(ShellValue::AssociativeArray(m)) }
    }
}
fn one_elem_literal() -> ShellValueLiteral { let mut v = Vec::with_capacity(1); v.push((None, String::new())); ShellValueLiteral::Array(ArrayLiteral(v)) }
/// writer 0: x=v  1: x+=v  2: x=(v)  3: x+=(v)  4: x[0]=v  5: x[0]+=v  6: unset x[0]
fn write(v: &mut ShellVariable, w: u8) -> bool {
    match w {
        0 => vk_is_err(v.assign(ShellValueLiteral::Scalar(String::new()), false)),
        1 => vk_is_err(v.assign(ShellValueLiteral::Scalar(String::new()), true)),
        2 => vk_is_err(v.assign(one_elem_literal(), false)),
        3 => vk_is_err(v.assign(one_elem_literal(), true)),
        4 => vk_is_err(v.assign_at_index(String::from("0"), String::new(), false)),
        5 => vk_is_err(v.assign_at_index(String::from("0"), String::new(), true)),
        _ => vk_is_err(v.unset_index("0")),
    }
}

fn readonly_step(k: u8) {
    let mut v = mk(k);
    v.set_readonly();
    let exported: bool = kani::any();
    if exported { v.export(); }
    let before = muts(&v);
    let w: u8 = any_below(7);
    let failed = write(&mut v, w);
    kani::cover!(w == 4, "element_assignment");
    kani::cover!(w == 6, "element_unset");
    assert!(failed, "C09.readonly.every_writer_refuses");
    assert!(muts(&v) == before, "C09.readonly.zero_container_mutations");
    assert!(kind(&v) == k && v.is_readonly() && v.is_exported() == exported, "C09.readonly.kind_and_attributes_unchanged");
    assert!(vk_is_err(v.unset_readonly()) && v.is_readonly(), "C09.readonly.attribute_cannot_be_removed");
    std::mem::forget(v);
}

//@proof {'props': ['C09'], 'tier': 'quick', 'timeout': 900, 'uses': ['variables_file'], 'bounds': 'readonly indexed array with one element; writer symbolic among x=v, x+=v, x=(v), x+=(v), x[0]=v, x[0]+=v, unset x[0]', 'desc': 'every mutator of a readonly indexed array fails, performs zero container mutations and leaves kind and attributes unchanged (D9: the element writers)'}
#[kani::proof]
#[kani::unwind(5)]
fn vk_c09_readonly_indexed() { readonly_step(4); }

//@proof {'props': ['C09'], 'tier': 'quick', 'timeout': 900, 'uses': ['variables_file'], 'bounds': 'readonly associative array with one element; writer symbolic (7 writers)', 'desc': 'every mutator of a readonly associative array fails with zero container mutations'}
#[kani::proof]
#[kani::unwind(5)]
fn vk_c09_readonly_assoc() { readonly_step(5); }

//@proof {'props': ['C09'], 'tier': 'quick', 'timeout': 900, 'uses': ['variables_file'], 'bounds': 'readonly scalar; writer symbolic (7 writers)', 'desc': 'every mutator of a readonly scalar fails and leaves it a scalar'}
#[kani::proof]
#[kani::unwind(5)]
fn vk_c09_readonly_scalar() { readonly_step(3); }

//@proof {'props': ['C09'], 'tier': 'thorough', 'timeout': 900, 'uses': ['variables_file'], 'bounds': 'readonly declared-but-unset variable of each of the three unset kinds; writer symbolic', 'desc': 'readonly declared-but-unset variables refuse every writer'}
#[kani::proof]
#[kani::unwind(5)]
fn vk_c09_readonly_unset_kinds() { let k: u8 = any_below(3); readonly_step(k); }

fn kind_table_step(k: u8) { kind_table_step_w(k, 0, 6) }
fn kind_table_step_w(k: u8, wlo: u8, whi: u8) {
    let mut v = mk(k);
    let w: u8 = any_below(6);
    kani::assume(w >= wlo && w < whi);
    let n0 = nelems(&v);
    let failed = write(&mut v, w);
    let k1 = kind(&v);
    kani::cover!(w == 3 || wlo > 3 || whi <= 3, "array_append");
    kani::cover!(w == 0 || wlo > 0, "scalar_assignment");
    assert!(!failed, "C09.kinds.writable_variable_accepts_every_assignment_form");
    // bash's table: an associative variable stays associative, an indexed one stays indexed; a scalar or untyped variable becomes
    // indexed when given an array literal or an element; a scalar assigned to an array variable goes to element 0
    let expect = match (k, w) {
        (0, 0) | (0, 1) | (3, 0) | (3, 1) => 3,
        (0, _) | (3, _) => 4,
        (1, _) | (4, _) => 4,
        (_, _) => 5,
    };
    assert!(k1 == expect, "C09.kinds.resulting_kind_follows_bash_table");
    // element bookkeeping: x=(v) replaces; x+=(v) appends one element; x[0]=v / x=v on an array touch element 0 only
    if k == 4 || k == 5 {
        let n1 = nelems(&v);
        let en = match w { 2 => 1, 3 => n0 + 1, _ => n0 };
        assert!(n1 == en, "C09.kinds.element_count");
    }
    if k == 3 && w == 3 { assert!(nelems(&v) == 2, "C09.kinds.append_array_to_scalar_keeps_old_value_at_0"); }
    assert!(!v.is_readonly(), "C09.kinds.no_spurious_readonly");
    std::mem::forget(v);
}

//@proof {'props': ['C09'], 'tier': 'quick', 'timeout': 900, 'uses': ['variables_file'], 'bounds': 'scalar variable; assignment form symbolic among x=v, x+=v, x=(v), x+=(v), x[0]=v, x[0]+=v', 'desc': 'assignment-kind table from a scalar: scalar forms keep it scalar, array forms make it an indexed array with the old value at 0'}
#[kani::proof]
#[kani::unwind(5)]
fn vk_c09_kind_table_scalar() { kind_table_step(3); }

//@proof {'props': ['C09'], 'tier': 'quick', 'timeout': 900, 'uses': ['variables_file'], 'bounds': 'indexed array with one element; assignment form symbolic (6 forms)', 'desc': 'assignment-kind table from an indexed array: stays indexed; a scalar goes to element 0; (v) replaces, +=(v) appends after the highest index'}
#[kani::proof]
#[kani::unwind(5)]
fn vk_c09_kind_table_indexed() { kind_table_step(4); }

//@proof {'props': ['C09'], 'tier': 'thorough', 'timeout': 2400, 'uses': ['variables_file'], 'bounds': 'associative array with one element; scalar forms x=v, x+=v', 'desc': 'assignment-kind table from an associative array, scalar forms: stays associative, the scalar goes to element "0"'}
#[kani::proof]
#[kani::unwind(5)]
fn vk_c09_kind_table_assoc_scalar_forms() { kind_table_step_w(5, 0, 2); }

//@proof {'props': ['C09'], 'tier': 'thorough', 'timeout': 2400, 'uses': ['variables_file'], 'bounds': 'associative array with one element; array forms x=(v), x+=(v)', 'desc': 'assignment-kind table from an associative array, array-literal forms: stays associative; (v) replaces, +=(v) adds'}
#[kani::proof]
#[kani::unwind(5)]
fn vk_c09_kind_table_assoc_array_forms() { kind_table_step_w(5, 2, 4); }

//@proof {'props': ['C09'], 'tier': 'thorough', 'timeout': 2400, 'uses': ['variables_file'], 'bounds': 'associative array with one element; element forms x[0]=v, x[0]+=v', 'desc': 'assignment-kind table from an associative array, element forms: stays associative, element count unchanged'}
#[kani::proof]
#[kani::unwind(5)]
fn vk_c09_kind_table_assoc_element_forms() { kind_table_step_w(5, 4, 6); }

// (one proof per kind: with the kind symbolic the query exceeded the memory cap)
//@proof {'props': ['C09'], 'tier': 'thorough', 'timeout': 1800, 'uses': ['variables_file'], 'bounds': 'declared-but-unset untyped variable; assignment form symbolic', 'desc': 'assignment-kind table from declared-but-unset variables (declare x / declare -a x / declare -A x)'}
#[kani::proof]
#[kani::unwind(5)]
fn vk_c09_kind_table_unset_untyped() { kind_table_step(0); }

//@proof {'props': ['C09'], 'tier': 'thorough', 'timeout': 1800, 'uses': ['variables_file'], 'bounds': 'declared-but-unset indexed-array variable; assignment form symbolic', 'desc': 'assignment-kind table from declared-but-unset variables (declare x / declare -a x / declare -A x)'}
#[kani::proof]
#[kani::unwind(5)]
fn vk_c09_kind_table_unset_indexed() { kind_table_step(1); }

//@proof {'props': ['C09'], 'tier': 'thorough', 'timeout': 1800, 'uses': ['variables_file'], 'bounds': 'declared-but-unset associative-array variable; assignment form symbolic', 'desc': 'assignment-kind table from declared-but-unset variables (declare x / declare -a x / declare -A x)'}
#[kani::proof]
#[kani::unwind(5)]
fn vk_c09_kind_table_unset_assoc() { kind_table_step(2); }

