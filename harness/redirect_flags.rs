/*@meta
{
 'package': 'brush-core',
 'host': 'brush-core/src/interp.rs',
 'direct': ['interp::get_default_fd_for_redirect_kind'],
 'stubs': ['tracing -> no-op stub crate', 'std::hash::RandomState::new -> fixed keys', 'std::time::SystemTime::now -> UNIX_EPOCH',
           'std::fs::OpenOptions -> duck-typed flag recorder with the same builder methods (read/write/append/truncate/create/create_new)',
           'Path::is_file() of the redirection target -> symbolic boolean'],
 'assumptions': ['the open(2) contract: create_new fails on an existing file; truncate empties it; append never truncates'],
 'out_of_claim': ['opening / duplicating / closing descriptors, left-to-right application (2>&1 >f), restoration afterwards, exec',
                  'here-document bodies and the tokenizer state machine behind them', 'process substitution', 'the noclobber check is racy by construction (is_file then open), as in bash'],
}
@*/
/*@recipes
{
 'file_flags': {'file': 'brush-core/src/interp.rs', 'start': r'^\s*let default_fd_if_unspecified = get_default_fd_for_redirect_kind\(kind\);', 'mode': 'until',
                'end': r'^\s*let opened_file = shell'},
 'both_flags': {'file': 'brush-core/src/interp.rs', 'start': r'^\s*let mut file_options = std::fs::File::options\(\);', 'mode': 'until',
                'end': r'^\s*let stdout_file = shell', 'rewrites': [[r'std::fs::File::options\(\)', 'Flags::default()', 1]]},
 'fd_target_default': {'file': 'brush-core/src/interp.rs', 'start': r'^\s*let default_fd_if_unspecified = match kind \{', 'nth': 0, 'mode': 'until',
                'end': r'^\s*if let Some\(target_file\) = params\.try_fd\(shell, \*fd\)'},
 'dup_target_default': {'file': 'brush-core/src/interp.rs', 'start': r'^\s*let default_fd_if_unspecified = match kind \{', 'nth': 1, 'mode': 'until',
                'end': r'^\s*let mut expanded_fields ='},
 'heredoc_fd': {'file': 'brush-core/src/interp.rs', 'start': r'ast::IoRedirect::HereDocument\(fd_num, io_here\) => \{\s*(//[^\n]*\n\s*)*', 'mode': 'until',
                'end': r'^\s*// Expand if required\.', 'rewrites': [[r'(?s)^.*?(let fd_num = )', r'\1', 1]]},
 'herestring_fd': {'file': 'brush-core/src/interp.rs', 'start': r'ast::IoRedirect::HereString\(fd_num, word\) => \{\s*(//[^\n]*\n\s*)*', 'mode': 'until',
                'end': r'^\s*let mut expanded_word', 'rewrites': [[r'(?s)^.*?(let fd_num = )', r'\1', 1]]},
}
@*/
use super::*;
use crate::vk_prelude::*;

type Sh = Shell<extensions::DefaultShellExtensions>;

#[derive(Default, Clone, Copy)]
pub struct Flags { pub read: bool, pub write: bool, pub append: bool, pub truncate: bool, pub create: bool, pub create_new: bool }
impl Flags {
    pub fn read(&mut self, v: bool) -> &mut Self { self.read = v; self }
    pub fn write(&mut self, v: bool) -> &mut Self { self.write = v; self }
    pub fn append(&mut self, v: bool) -> &mut Self { self.append = v; self }
    pub fn truncate(&mut self, v: bool) -> &mut Self { self.truncate = v; self }
    pub fn create(&mut self, v: bool) -> &mut Self { self.create = v; self }
    pub fn create_new(&mut self, v: bool) -> &mut Self { self.create_new = v; self }
    /// what open(2) does to an existing regular file with these flags: (fails, truncates)
    pub fn effect_on_existing(&self) -> (bool, bool) {
        let writes = self.write || self.append;
        (self.create_new, !self.create_new && self.truncate && writes && !self.append)
    }
}
pub struct PathProbe { pub regular_file_exists: bool }
impl PathProbe { pub fn is_file(&self) -> bool { self.regular_file_exists } }

fn k_file_flags(shell: &Sh, kind: &ast::IoFileRedirectKind, specified_fd_num: &Option<ShellFd>, expanded_file_path: &PathProbe) -> (Flags, ShellFd) {
    let mut options = Flags::default();
/*@LIFT file_flags*/
    (options, fd_num)
}

fn k_both_flags(shell: &Sh, abs_file_path: &PathProbe, append: bool) -> Flags {
/*@LIFT both_flags*/
    file_options
}

fn k_fd_target_default(kind: &ast::IoFileRedirectKind, specified_fd_num: &Option<ShellFd>) -> Result<ShellFd, error::Error> {
/*@LIFT fd_target_default*/
    Ok(fd_num)
}
fn k_dup_target_default(kind: &ast::IoFileRedirectKind, specified_fd_num: &Option<ShellFd>) -> Result<ShellFd, error::Error> {
/*@LIFT dup_target_default*/
    Ok(fd_num)
}
fn k_heredoc_fd(fd_num: &Option<ShellFd>) -> ShellFd {
    /*@LIFT heredoc_fd*/
    fd_num
}
fn k_herestring_fd(fd_num: &Option<ShellFd>) -> ShellFd {
    /*@LIFT herestring_fd*/
    fd_num
}

fn any_fd() -> Option<ShellFd> {
    if kani::any() { let n: ShellFd = kani::any(); kani::assume(0 <= n && n <= 9); Some(n) } else { None }
}
fn kind_of(k: u8) -> ast::IoFileRedirectKind {
    match k { 0 => ast::IoFileRedirectKind::Read, 1 => ast::IoFileRedirectKind::Write, 2 => ast::IoFileRedirectKind::Append,
              3 => ast::IoFileRedirectKind::ReadAndWrite, 4 => ast::IoFileRedirectKind::Clobber,
              5 => ast::IoFileRedirectKind::DuplicateInput, _ => ast::IoFileRedirectKind::DuplicateOutput }
}

//@proof {'props': ['C10'], 'tier': 'quick', 'timeout': 600, 'uses': ['file_flags'], 'bounds': 'kinds < > >> <> >| ; noclobber x target-exists symbolic; explicit fd 0..9 or absent', 'desc': 'open-mode table of `[n]OP file` against POSIX 2.7 / bash: read-only, create+truncate, exclusive create under noclobber on an existing regular file, append never truncates, <> never truncates, >| ignores noclobber; default descriptor 0 for < <>, 1 for > >> >|; explicit n wins'}
#[kani::proof]
#[kani::unwind(4)]
#[kani::stub(std::hash::RandomState::new, crate::vk_prelude::stub_random_state_new)]
#[kani::stub(std::time::SystemTime::now, crate::vk_prelude::stub_now)]
fn vk_c10_file_open_modes() {
    let mut shell: Sh = Shell::default();
    let noclobber: bool = kani::any();
    shell.options_mut().disallow_overwriting_regular_files_via_output_redirection = noclobber;
    let k: u8 = any_below(5);
    let kind = kind_of(k);
    let spec = any_fd();
    let path = PathProbe { regular_file_exists: kani::any() };
    let (f, fd) = k_file_flags(&shell, &kind, &spec, &path);
    kani::cover!(k == 1 && noclobber && path.regular_file_exists, "noclobber_on_existing_file");
    kani::cover!(k == 4 && noclobber && path.regular_file_exists, "clobber_override");
    let default_fd = match k { 0 | 3 => 0, _ => 1 };
    assert!(fd == match spec { Some(n) => n, None => default_fd }, "C10.file.descriptor_number");
    let (fails, truncates) = f.effect_on_existing();
    match k {
        0 => { assert!(f.read && !f.write && !f.append && !f.truncate && !f.create && !f.create_new, "C10.file.read_only_no_create"); }
        1 => {
            assert!(f.write && !f.read && !f.append && (f.create || f.create_new), "C10.file.write_creates");
            if noclobber && path.regular_file_exists { assert!(fails && !truncates, "C10.file.noclobber_never_overwrites"); }
            if !noclobber { assert!(f.truncate && f.create && !f.create_new, "C10.file.write_truncates"); }
            if !path.regular_file_exists { assert!(f.create && !f.create_new, "C10.file.write_creates_missing"); }
        }
        2 => { assert!(f.append && f.create && !f.truncate && !f.create_new && !f.read, "C10.file.append_never_truncates"); }
        3 => { assert!(f.read && f.write && f.create && !f.truncate && !f.append && !f.create_new, "C10.file.readwrite_no_truncate"); }
        _ => { assert!(f.write && f.create && f.truncate && !f.create_new && !f.append && !f.read, "C10.file.clobber_ignores_noclobber"); }
    }
    std::mem::forget(shell);
}

//@proof {'props': ['C10'], 'tier': 'quick', 'timeout': 600, 'uses': ['both_flags'], 'bounds': '&> and &>> ; noclobber x target-exists symbolic', 'desc': '&> behaves as > and &>> as >> with respect to creation, truncation and noclobber (D13)'}
#[kani::proof]
#[kani::unwind(4)]
#[kani::stub(std::hash::RandomState::new, crate::vk_prelude::stub_random_state_new)]
#[kani::stub(std::time::SystemTime::now, crate::vk_prelude::stub_now)]
fn vk_c10_output_and_error_modes() {
    let mut shell: Sh = Shell::default();
    let noclobber: bool = kani::any();
    shell.options_mut().disallow_overwriting_regular_files_via_output_redirection = noclobber;
    let append: bool = kani::any();
    let path = PathProbe { regular_file_exists: kani::any() };
    let f = k_both_flags(&shell, &path, append);
    kani::cover!(!append && noclobber && path.regular_file_exists, "noclobber_on_existing_file");
    let (fails, truncates) = f.effect_on_existing();
    assert!((f.write || f.append) && !f.read, "C10.both.write_only");
    if append {
        assert!(f.append && f.create && !truncates && !fails, "C10.both.append_never_truncates");
    } else {
        if noclobber && path.regular_file_exists { assert!(fails && !truncates, "C10.both.noclobber_never_overwrites"); }
        if !noclobber { assert!(f.create && truncates && !fails, "C10.both.truncates"); }
        if !path.regular_file_exists { assert!(f.create && !f.create_new, "C10.both.creates_missing"); }
    }
    std::mem::forget(shell);
}

//@proof {'props': ['C10'], 'tier': 'quick', 'timeout': 600, 'uses': ['fd_target_default', 'dup_target_default', 'heredoc_fd', 'herestring_fd'], 'bounds': 'kinds <& >& with fd / word target, << and <<<; explicit fd 0..9 or absent', 'desc': 'default descriptor of [n]<&m [n]>&m [n]<<x [n]<<<x is 0 / 1 / 0 / 0 and an explicit n wins; other kinds with an fd target are rejected'}
#[kani::proof]
#[kani::unwind(4)]
fn vk_c10_default_descriptors() {
    let k: u8 = any_below(7);
    let kind = kind_of(k);
    let spec = any_fd();
    kani::cover!(k == 6 && spec.is_none(), "dup_output_default");
    kani::cover!(k == 5 && spec == Some(3), "dup_input_explicit");
    let r1 = k_fd_target_default(&kind, &spec);
    let r2 = k_dup_target_default(&kind, &spec);
    let expect = match (k, spec) { (_, Some(n)) => n, (5, None) => 0, _ => 1 };
    if k == 5 || k == 6 {
        assert!(matches!(r1, Ok(n) if n == expect), "C10.dup.fd_target_descriptor");
        assert!(matches!(r2, Ok(n) if n == expect), "C10.dup.word_target_descriptor");
    } else {
        assert!(r1.is_err() && r2.is_err(), "C10.dup.other_kinds_rejected");
    }
    assert!(k_heredoc_fd(&spec) == spec.unwrap_or(0), "C10.heredoc.descriptor");
    assert!(k_herestring_fd(&spec) == spec.unwrap_or(0), "C10.herestring.descriptor");
    assert!(get_default_fd_for_redirect_kind(&kind) == match k { 0 | 3 | 5 => 0, _ => 1 }, "C10.default_fd_table");
    std::mem::forget(r1); std::mem::forget(r2);
}
