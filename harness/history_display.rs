/*@meta
{
 'package': 'brush-builtins',
 'host': 'brush-builtins/src/history.rs',
 'stubs': ['lift of the index arithmetic at the head of display_history (from `let item_count` up to the listing loop): the history is a stand-in answering count() with a symbolic number'],
 'assumptions': ['any number of recorded entries and any requested count (usize)'],
 'out_of_claim': ['formatting of the lines, timestamps (chrono), option parsing'],
}
@*/
/*@recipes
{
 'head': {'file': 'brush-builtins/src/history.rs', 'start': r'let item_count = history\.count\(\);', 'mode': 'until', 'end': r'\n\s*for \(i, item\) in history'},
}
@*/
pub struct DHist { pub n: usize }
impl DHist { pub fn count(&self) -> usize { self.n } }

fn t_head(history: &DHist, max_entries: Option<usize>) -> (usize, usize) {
    /*@LIFT head*/
    (item_count, skip_count)
}

//@proof {'props': ['C20', 'C01'], 'tier': 'quick', 'timeout': 300, 'uses': ['head'], 'bounds': 'entries recorded: any usize; `history N` with any N, or no N', 'desc': '`history N` lists the last N entries - all of them when N exceeds what is recorded - and never panics on the subtraction (`echo a; history 10`)'}
#[kani::proof]
#[kani::unwind(2)]
fn vk_c20_history_listing_count() {
    let h = DHist { n: kani::any() };
    let max: Option<usize> = if kani::any() { Some(kani::any()) } else { None };
    let (count, skip) = t_head(&h, max);
    kani::cover!(matches!(max, Some(m) if m > h.n), "more_requested_than_recorded");
    assert!(count == h.n, "C20.list.count_is_the_number_of_entries");
    let shown = match max { Some(m) if m < h.n => m, _ => h.n };
    assert!(skip <= h.n && h.n - skip == shown, "C20.list.shows_the_last_n_or_everything");
}
