/*@meta
{
 'package': 'brush-core',
 'host': 'brush-core/src/commands.rs',
 'stubs': ['tracing -> no-op stub crate', 'crate::error::Error / ErrorKind -> small stand-ins inside the harness module',
           'SimpleCommand, ShellForCommand, ExecutionContext and the shell are duck-typed inside the harness module (same field and method names); the statements of SimpleCommand::execute, execute_via_builtin, execute_via_builtin_in_parent_shell, execute_via_function and execute_via_external are the repository\'s text',
           'execute_builtin_command / invoke_shell_function / execute_external_command / execute_via_builtin_in_owned_shell -> oracles returning an arbitrary Ok / Err and recording when they ran',
           'builtin / function registries, PATH search and the path-separator test -> symbolic lookups', 'post_execute -> a real fn pointer that counts on the duck shell and may itself fail'],
 'assumptions': ['one simple command; the body it dispatches to is an oracle'],
 'out_of_claim': ['what post_execute does (popping the Command scope: interp.rs execute_command, read)', 'descriptors and child processes', 'owned-shell (pipeline stage) builtins run on a clone and have no parent state to restore'],
}
@*/
/*@recipes
{
 'sc_execute': {'file': 'brush-core/src/commands.rs', 'start': r'pub async fn execute\(mut self\) -> Result<ExecutionSpawnResult, error::Error>', 'mode': 'fn_body', 'self_to': 'this', 'deasync': True,
        'rewrites': [[r'this\.execute_via_builtin\(builtin\)', r't_via_builtin(this, builtin, __o)', 2],
                     [r'this\.execute_via_function\(func_registration\)', r't_via_function(this, func_registration, __o)', 1],
                     [r'this\.execute_via_external\(&path\)', r't_via_external(this, &path, __o)', 1],
                     [r'this\.execute_via_external\(command_name\.as_path\(\)\)', r't_via_external(this, command_name.as_path(), __o)', 1],
                     [r'sys::fs::contains_path_separator\(&this\.command_name\)', r'__o.has_separator()', 1],
                     [r'pathsearch::search_for_executable\(path_dirs\.iter\(\), this\.command_name\.as_str\(\)\)\s*\.next\(\)', r'__o.search(path_dirs)', 1],
                     [r'Self::take_last_arg\(&this\.args\)', r'__o.take_last_arg()', 1]]},
 'via_builtin': {'file': 'brush-core/src/commands.rs', 'start': r'async fn execute_via_builtin\(', 'mode': 'fn_body', 'self_to': 'this', 'deasync': True,
        'rewrites': [[r'Self::execute_via_builtin_in_owned_shell\(', r'__o.owned_builtin(', 1],
                     [r'this\.execute_via_builtin_in_parent_shell\(builtin\)', r't_via_builtin_parent(this, builtin, __o)', 1]]},
 'via_builtin_parent': {'file': 'brush-core/src/commands.rs', 'start': r'async fn execute_via_builtin_in_parent_shell\(', 'mode': 'fn_body', 'self_to': 'this', 'deasync': True,
        'rewrites': [[r'execute_builtin_command\(&builtin, cmd_context, this\.args\)', r'__o.body(cmd_context)', 1],
                     [r'Self::take_last_arg\(&this\.args\)', r'__o.take_last_arg()', 1]]},
 'via_function': {'file': 'brush-core/src/commands.rs', 'start': r'async fn execute_via_function\(', 'mode': 'fn_body', 'self_to': 'this', 'deasync': True,
        'rewrites': [[r'invoke_shell_function\(func_registration, cmd_context, &this\.args\[1\.\.\]\)', r'__o.body(cmd_context)', 1],
                     [r'Self::take_last_arg\(&this\.args\)', r'__o.take_last_arg()', 1]]},
 'via_external': {'file': 'brush-core/src/commands.rs', 'start': r'fn execute_via_external\(self, path: &Path\)', 'mode': 'fn_body', 'self_to': 'this',
        'rewrites': [[r'(?s)execute_external_command\(\s*cmd_context,.*?&this\.args\[1\.\.\],?\s*\)', r'__o.body(cmd_context)', 1],
                     [r'Self::take_last_arg\(&this\.args\)', r'__o.take_last_arg()', 1]]},
}
@*/
use super::{ExecutionResult, ExecutionSpawnResult};
use std::path::{Path, PathBuf};

/// shadow `crate::error` / `ErrorKind` inside this module: errors are only created, moved and ignored by the lifted text; the real
/// type's drop glue (`let _ = post_execute(..)` drops a Result<(), Error>) made the harness exceed 13 GB
pub mod error { pub struct Error(pub u8); }
pub enum ErrorKind { CommandNotFound(String), MissingScope, NotArray }
impl From<ErrorKind> for error::Error { fn from(k: ErrorKind) -> Self { match k { ErrorKind::CommandNotFound(s) => { std::mem::forget(s); error::Error(1) } ErrorKind::MissingScope => error::Error(2), ErrorKind::NotArray => error::Error(3) } } }
use crate::vk_prelude::*;

// ---------------------------------------------------------------- duck-typed environment
#[derive(Clone)]
pub struct BReg { pub disabled: bool, pub special_builtin: bool }
#[derive(Clone)]
pub struct FReg;
pub struct BTable { pub found: Option<BReg> }
impl BTable { pub fn get(&self, _n: &String) -> Option<&BReg> { self.found.as_ref() } }
pub struct FTable { pub found: Option<FReg> }
impl FTable { pub fn get(&self, _n: &str) -> Option<&FReg> { self.found.as_ref() } }
pub struct DOpts { pub posix_mode: bool }
pub struct DSh { pub b: BTable, pub f: FTable, pub o: DOpts, pub in_path: bool, pub t: u8, pub last_arg_updates: u8, pub last_arg_at: u8, pub post_runs: u8, pub post_at: u8, pub post_fails: bool }
impl DSh {
    pub fn builtins(&self) -> &BTable { &self.b }
    pub fn funcs(&self) -> &FTable { &self.f }
    pub fn options(&self) -> &DOpts { &self.o }
    pub fn find_first_executable_in_path_using_cache(&mut self, _n: &String) -> Option<PathBuf> { if self.in_path { Some(PathBuf::new()) } else { None } }
    pub fn update_last_arg_variable(&mut self, a: Option<String>) { std::mem::forget(a); self.t += 1; self.last_arg_updates += 1; self.last_arg_at = self.t; }
}
pub fn post_hook(sh: &mut DSh) -> Result<(), error::Error> {
    sh.t += 1; sh.post_runs += 1; sh.post_at = sh.t;
    if sh.post_fails { Err(ErrorKind::MissingScope.into()) } else { Ok(()) }
}
pub enum ShellForCommand<'a> { ParentShell(&'a mut DSh), OwnedShell { target: Box<DSh>, parent: &'a mut DSh } }
impl std::ops::Deref for ShellForCommand<'_> { type Target = DSh; fn deref(&self) -> &DSh { match self { ShellForCommand::ParentShell(s) => s, ShellForCommand::OwnedShell { target, .. } => target } } }
impl std::ops::DerefMut for ShellForCommand<'_> { fn deref_mut(&mut self) -> &mut DSh { match self { ShellForCommand::ParentShell(s) => s, ShellForCommand::OwnedShell { target, .. } => target } } }
pub struct ExecutionContext<'a> { pub shell: &'a mut DSh, pub command_name: String, pub params: u8 }
pub struct Cmd<'a> {
    pub shell: ShellForCommand<'a>, pub command_name: String, pub args: u8, pub params: u8, pub use_functions: bool, pub path_dirs: Option<u8>,
    pub process_group_id: Option<i32>, pub argv0: Option<String>, pub post_execute: Option<fn(&mut DSh) -> Result<(), error::Error>>,
}

pub struct SOracle { pub body_fails: bool, pub code: u8, pub bodies: u8, pub body_at: u8, pub owned: u8, pub sep: bool, pub search_hit: bool, pub which_body_shell_t: u8 }
impl SOracle {
    fn body(&mut self, ctx: ExecutionContext<'_>) -> Result<ExecutionSpawnResult, error::Error> {
        ctx.shell.t += 1; self.bodies += 1; self.body_at = ctx.shell.t;
        std::mem::forget(ctx.command_name);
        if self.body_fails { Err(ErrorKind::NotArray.into()) } else { Ok(ExecutionSpawnResult::Completed(ExecutionResult::new(self.code))) }
    }
    fn owned_builtin(&mut self, sh: DSh, _p: u8, _b: BReg, n: String, _a: u8) -> ExecutionSpawnResult { std::mem::forget(n); std::mem::forget(sh); self.owned += 1; ExecutionSpawnResult::Completed(ExecutionResult::success()) }
    fn has_separator(&self) -> bool { self.sep }
    fn search(&self, _d: &u8) -> Option<PathBuf> { if self.search_hit { Some(PathBuf::new()) } else { None } }
    fn take_last_arg(&self) -> Option<String> { None }
}

fn t_via_builtin_parent(this: Cmd<'_>, builtin: BReg, __o: &mut SOracle) -> Result<ExecutionSpawnResult, error::Error> {
/*@LIFT via_builtin_parent*/
}
fn t_via_builtin(this: Cmd<'_>, builtin: BReg, __o: &mut SOracle) -> Result<ExecutionSpawnResult, error::Error> {
/*@LIFT via_builtin*/
}
fn t_via_function(this: Cmd<'_>, func_registration: FReg, __o: &mut SOracle) -> Result<ExecutionSpawnResult, error::Error> {
/*@LIFT via_function*/
}
fn t_via_external(this: Cmd<'_>, path: &Path, __o: &mut SOracle) -> Result<ExecutionSpawnResult, error::Error> {
/*@LIFT via_external*/
}
fn t_execute(mut this: Cmd<'_>, __o: &mut SOracle) -> Result<ExecutionSpawnResult, error::Error> {
/*@LIFT sc_execute*/
}

//@proof {'props': ['C18', 'C09'], 'tier': 'quick', 'timeout': 900, 'uses': ['sc_execute', 'via_builtin', 'via_builtin_parent', 'via_function', 'via_external'], 'bounds': 'one simple command in the parent shell; builtin found? disabled? special? function found? posix mode? name has a slash? found in PATH? explicit search dirs? - all symbolic; the body fails or not; the hook fails or not', 'desc': 'every dispatch path of a simple command run in the parent shell (special builtin, function, builtin, external by PATH / by path, command not found) runs the post_execute hook exactly once, after the body and after $_ was updated, also when the body fails; the body runs at most once; its result is returned unchanged and the hook\'s own failure is ignored'}
#[kani::proof]
#[kani::unwind(3)]
fn vk_c18_simple_command_post_execute_once() {
    let has_b: bool = kani::any();
    let has_f: bool = kani::any();
    let mut sh = DSh { b: BTable { found: if has_b { Some(BReg { disabled: kani::any(), special_builtin: kani::any() }) } else { None } }, f: FTable { found: if has_f { Some(FReg) } else { None } },
                       o: DOpts { posix_mode: kani::any() }, in_path: kani::any(), t: 0, last_arg_updates: 0, last_arg_at: 0, post_runs: 0, post_at: 0, post_fails: kani::any() };
    let mut o = SOracle { body_fails: kani::any(), code: kani::any(), bodies: 0, body_at: 0, owned: 0, sep: kani::any(), search_hit: kani::any(), which_body_shell_t: 0 };
    let explicit_dirs: bool = kani::any();
    let use_functions: bool = kani::any();
    let cmd = Cmd { shell: ShellForCommand::ParentShell(&mut sh), command_name: String::new(), args: 0, params: 0, use_functions, path_dirs: if explicit_dirs { Some(0) } else { None },
                    process_group_id: None, argv0: None, post_execute: Some(post_hook) };
    let r = t_execute(cmd, &mut o);
    let not_found = o.bodies == 0;
    kani::cover!(not_found, "command_not_found");
    kani::cover!(o.bodies == 1 && o.body_fails && has_f && use_functions, "function_body_fails");
    kani::cover!(o.bodies == 1 && o.sep && !has_b && !has_f, "external_by_path");
    assert!(o.owned == 0, "C18.dispatch.parent_shell_command_never_takes_the_owned_shell_path");
    assert!(o.bodies <= 1, "C18.dispatch.body_runs_at_most_once");
    assert!(sh.post_runs == 1, "C18.dispatch.post_execute_exactly_once_on_every_path");
    assert!(sh.last_arg_updates == 1 && sh.last_arg_at < sh.post_at, "C18.dispatch.last_arg_updated_once_before_the_hook");
    if !not_found {
        assert!(o.body_at < sh.last_arg_at, "C18.dispatch.hook_and_last_arg_after_the_body");
        assert!(r.is_err() == o.body_fails, "C18.dispatch.body_result_returned_unchanged_hook_failure_ignored");
        if let Ok(ExecutionSpawnResult::Completed(x)) = &r { assert!(u8::from(x.exit_code) == o.code, "C18.dispatch.status_is_body_status"); }
    } else {
        assert!(r.is_err(), "C18.dispatch.not_found_is_an_error");
    }
    std::mem::forget(r);
}
