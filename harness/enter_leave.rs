/*@meta
{
 'package': 'brush-core',
 'host': 'brush-core/src/shell/callstack.rs',
 'stubs': ['tracing -> no-op stub crate',
           'the shell is duck-typed: `options.max_function_call_depth`, `call_stack` (counting stack of frame kinds with the method names of CallStack) and `env` (counting scope stack with push_scope / pop_scope); the statements of enter_function, leave_function, start/end_command_string_mode, start/end_interactive_session are the repository\'s text'],
 'assumptions': ['<= 3 frames / scopes below the call'],
 'out_of_claim': ['frame contents (names, arguments, source positions)'],
}
@*/
/*@recipes
{
 'enter_fn': {'file': 'brush-core/src/shell/callstack.rs', 'start': r'pub\(crate\) fn enter_function\(', 'mode': 'fn_body', 'self_to': 'this'},
 'leave_fn': {'file': 'brush-core/src/shell/callstack.rs', 'start': r'pub\(crate\) fn leave_function\(&mut self\)', 'mode': 'fn_body', 'self_to': 'this'},
 'start_cs': {'file': 'brush-core/src/shell/callstack.rs', 'start': r'pub fn start_command_string_mode\(&mut self\)', 'mode': 'fn_body', 'self_to': 'this'},
 'end_cs': {'file': 'brush-core/src/shell/callstack.rs', 'start': r'pub fn end_command_string_mode\(&mut self\)', 'mode': 'fn_body', 'self_to': 'this'},
}
@*/
use super::*;
use crate::vk_prelude::*;

pub struct DOpts { pub max_function_call_depth: Option<usize> }
/// shadows `crate::callstack` inside this module: the lifted text only inspects the *kind* of a popped frame
/// (a real Function frame owns an Arc'd AST whose drop glue CBMC would have to walk)
pub mod callstack {
    pub struct FunctionCall { pub function_name: String }
    pub enum FrameType { Function(FunctionCall), CommandString, InteractiveSession, Eval }
    impl FrameType {
        pub const fn is_command_string(&self) -> bool { matches!(self, Self::CommandString) }
        pub const fn is_interactive_session(&self) -> bool { matches!(self, Self::InteractiveSession) }
        pub const fn is_function(&self) -> bool { matches!(self, Self::Function(_)) }
    }
}
pub struct DFrame { pub frame_type: callstack::FrameType }
/// counting stack: kinds 0 = function, 1 = command string, 2 = eval
pub struct DStack { pub kinds: [u8; 4], pub n: usize, pub fdepth: usize }
impl DStack {
    pub fn function_call_depth(&self) -> usize { self.fdepth }
    pub fn push_function(&mut self, _n: impl Into<String>, _f: &functions::Registration, args: impl IntoIterator<Item = String>) {
        for a in args { std::mem::forget(a); }
        kani::assume(self.n < 4); let n = self.n; self.kinds[n] = 0; self.n += 1; self.fdepth += 1;
    }
    pub fn push_command_string(&mut self) { kani::assume(self.n < 4); let n = self.n; self.kinds[n] = 1; self.n += 1; }
    pub fn current_frame(&self) -> Option<DFrame> { if self.n == 0 { None } else { Some(mk_frame(self.kinds[self.n - 1])) } }
    pub fn pop(&mut self) -> Option<DFrame> {
        if self.n == 0 { return None; }
        self.n -= 1; let k = self.kinds[self.n];
        if k == 0 { self.fdepth = self.fdepth.saturating_sub(1); }
        Some(mk_frame(k))
    }
}
fn mk_frame(k: u8) -> DFrame {
    DFrame { frame_type: match k {
        0 => callstack::FrameType::Function(callstack::FunctionCall { function_name: String::new() }),
        1 => callstack::FrameType::CommandString,
        _ => callstack::FrameType::Eval,
    } }
}
fn mk_reg() -> functions::Registration {
    let def = brush_parser::ast::FunctionDefinition {
        fname: brush_parser::ast::Word::new(""),
        body: brush_parser::ast::FunctionBody(brush_parser::ast::CompoundCommand::BraceGroup(brush_parser::ast::BraceGroupCommand { list: brush_parser::ast::CompoundList(Vec::new()), loc: Default::default() }), None),
    };
    functions::Registration::from(def)
}
/// counting scope stack: kinds 0 = Local, 1 = Global, 2 = Command
pub struct DEnv { pub kinds: [u8; 4], pub n: usize }
impl DEnv {
    fn tag(s: env::EnvironmentScope) -> u8 { match s { env::EnvironmentScope::Local => 0, env::EnvironmentScope::Global => 1, env::EnvironmentScope::Command => 2 } }
    pub fn push_scope(&mut self, s: env::EnvironmentScope) { kani::assume(self.n < 4); let n = self.n; self.kinds[n] = Self::tag(s); self.n += 1; }
    pub fn pop_scope(&mut self, s: env::EnvironmentScope) -> Result<(), error::Error> {
        if self.n == 0 { return Err(error::ErrorKind::MissingScope.into()); }
        self.n -= 1;
        if self.kinds[self.n] == Self::tag(s) { Ok(()) } else { Err(error::ErrorKind::MissingScope.into()) }
    }
}
pub struct DShell { pub options: DOpts, pub call_stack: DStack, pub env: DEnv }

fn t_enter(this: &mut DShell, name: &str, function: &functions::Registration, args: Vec<String>, _params: &u8) -> Result<(), error::Error> {
/*@LIFT enter_fn*/
}
fn t_leave(this: &mut DShell) -> Result<(), error::Error> {
/*@LIFT leave_fn*/
}
fn t_start_cs(this: &mut DShell) {
/*@LIFT start_cs*/
}
fn t_end_cs(this: &mut DShell) -> Result<(), error::Error> {
/*@LIFT end_cs*/
}

//@proof {'props': ['C18', 'C09'], 'tier': 'quick', 'timeout': 900, 'uses': ['enter_fn', 'leave_fn'], 'bounds': 'call depth below the call 0..2 (symbolic), depth limit None / Some(symbolic <= 3)', 'desc': 'enter_function pushes exactly one function frame and one Local scope (or nothing, with an error, when the depth limit is reached); leave_function pops exactly that scope and that frame, restoring both depths'}
#[kani::proof]
#[kani::unwind(5)]
fn vk_c18_enter_leave_function() {
    let base_f: usize = kani::any(); kani::assume(base_f <= 2);
    let limited: bool = kani::any();
    let lim: usize = kani::any(); kani::assume(lim <= 3);
    let mut sh = DShell { options: DOpts { max_function_call_depth: if limited { Some(lim) } else { None } },
                          call_stack: DStack { kinds: [1, 0, 0, 0], n: 1 + base_f, fdepth: base_f }, env: DEnv { kinds: [1, 0, 0, 0], n: 1 + base_f } };
    let reg = mk_reg();
    let params = 0u8;
    let (d0, f0, s0) = (sh.call_stack.n, sh.call_stack.fdepth, sh.env.n);
    let failed = vk_is_err(t_enter(&mut sh, "", &reg, Vec::new(), &params));
    let over = limited && base_f >= lim;
    kani::cover!(over, "depth_limit_reached");
    kani::cover!(!over && base_f == 2, "nested_call");
    assert!(failed == over, "C18.enter.fails_exactly_at_depth_limit");
    if failed {
        assert!(sh.call_stack.n == d0 && sh.call_stack.fdepth == f0 && sh.env.n == s0, "C18.enter.nothing_pushed_on_failure");
    } else {
        assert!(sh.call_stack.n == d0 + 1 && sh.call_stack.fdepth == f0 + 1 && sh.call_stack.kinds[d0] == 0, "C18.enter.pushes_one_function_frame");
        assert!(sh.env.n == s0 + 1 && sh.env.kinds[s0] == 0, "C09.enter.pushes_one_local_scope");
        let lf = vk_is_err(t_leave(&mut sh));
        assert!(!lf, "C18.leave.succeeds_after_matching_enter");
        assert!(sh.call_stack.n == d0 && sh.call_stack.fdepth == f0 && sh.env.n == s0, "C18.leave.restores_frame_and_scope_depth");
    }
    std::mem::forget(reg); std::mem::forget(params);
}

//@proof {'props': ['C18'], 'tier': 'quick', 'timeout': 900, 'uses': ['start_cs', 'end_cs'], 'bounds': 'empty stack; optional stray frame on top at end time', 'desc': 'start/end_command_string_mode push and pop exactly one frame; ending with a different frame on top is an error and pops nothing'}
#[kani::proof]
#[kani::unwind(5)]
fn vk_c18_command_string_mode() {
    let mut sh = DShell { options: DOpts { max_function_call_depth: None }, call_stack: DStack { kinds: [0; 4], n: 0, fdepth: 0 }, env: DEnv { kinds: [1, 0, 0, 0], n: 1 } };
    t_start_cs(&mut sh);
    assert!(sh.call_stack.n == 1 && sh.call_stack.kinds[0] == 1, "C18.cs.start_pushes_one");
    let stray: bool = kani::any();
    if stray { sh.call_stack.kinds[1] = 2; sh.call_stack.n = 2; }
    let failed = vk_is_err(t_end_cs(&mut sh));
    kani::cover!(stray, "stray_frame");
    assert!(failed == stray, "C18.cs.end_checks_frame_kind");
    assert!(sh.call_stack.n == if stray { 2 } else { 0 }, "C18.cs.end_pops_exactly_its_frame");
}
