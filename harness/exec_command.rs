/*@meta
{
 'package': 'brush-core',
 'host': 'brush-core/src/interp.rs',
 'stubs': ['tracing -> no-op stub crate', 'crate::error::Error -> small stand-in inside the harness module',
           'transplant of interp::execute_command on a duck-typed shell whose environment is a counting scope stack; `env::ScopeGuard` (struct, impl and Drop) is lifted from env.rs and re-typed over the duck shell, so push-on-new / pop-on-drop / detach are the repository\'s statements',
           'apply_assignment(..).await -> oracle (records the scope depth it ran at; may fail)', 'trace_command -> counter',
           'commands::SimpleCommand -> stand-in whose execute() runs an oracle body and then the installed post_execute hook exactly once (that contract is discharged by vk_c18_simple_command_post_execute_once)'],
 'assumptions': ['one simple command with 0..2 prefix assignments'],
 'out_of_claim': ['what the assignments store (expansion, attributes)', 'the environment handed to a child process', 'pre-execution hooks'],
}
@*/
/*@recipes
{
 'scope_guard': {'file': 'brush-core/src/env.rs', 'start': r'^pub\(crate\) struct ScopeGuard<', 'mode': 'until', 'end': r'^/// Represents the shell variable environment',
        'rewrites': [[r"<'a, SE: extensions::ShellExtensions>", r"<'a>", 2],
                     [r'<SE: extensions::ShellExtensions>', r'', 1],
                     [r"ScopeGuard<'a, SE>", r"ScopeGuard<'a>", 1],
                     [r"ScopeGuard<'_, SE>", r"ScopeGuard<'_>", 1],
                     [r'crate::Shell<SE>', r'DSh', 3],
                     [r'pub\(crate\) struct', r'pub struct', 1]]},
 'exec_cmd': {'file': 'brush-core/src/interp.rs', 'start': r'^async fn execute_command<T: Into<String>>\(', 'mode': 'fn_body', 'deasync': True,
        'rewrites': [[r'crate::env::ScopeGuard::new\(', r'ScopeGuard::new(', 1],
                     [r'(?s)apply_assignment\(\s*assignment,\s*guard\.shell\(\),.*?EnvironmentScope::Command,\s*\)', r'apply_assignment_oracle(guard.shell())', 1],
                     [r'(?s)guard\s*\.shell\(\)\s*\.trace_command\(.*?\)\s*;', r'guard.shell().trace();', 1]]},
}
@*/
use super::{EnvironmentScope, ExecutionResult, ExecutionSpawnResult};

/// shadows `crate::error` inside this module: the lifted text creates, propagates and *drops* errors (`let _ = ...pop_scope(..)` in
/// ScopeGuard::drop); the real type's drop glue made this harness exceed 14 GB
pub mod error {
    pub struct Error(pub u8);
    pub enum ErrorKind { MissingScope, ReadonlyVariable, NotArray }
    impl From<ErrorKind> for Error { fn from(k: ErrorKind) -> Self { Error(match k { ErrorKind::MissingScope => 1, ErrorKind::ReadonlyVariable => 2, ErrorKind::NotArray => 3 }) } }
}
use crate::vk_prelude::*;

pub struct DOpts { pub print_commands_and_arguments: bool }
/// counting scope stack: kinds 0 Local, 1 Global, 2 Command
pub struct DEnv { pub kinds: [u8; 4], pub n: usize, pub pushes: u8, pub pops: u8, pub bad_pops: u8 }
impl DEnv {
    fn tag(s: EnvironmentScope) -> u8 { match s { EnvironmentScope::Local => 0, EnvironmentScope::Global => 1, EnvironmentScope::Command => 2 } }
    pub fn push_scope(&mut self, s: EnvironmentScope) { kani::assume(self.n < 4); let n = self.n; self.kinds[n] = Self::tag(s); self.n += 1; self.pushes += 1; }
    pub fn pop_scope(&mut self, s: EnvironmentScope) -> Result<(), error::Error> {
        self.pops += 1;
        if self.n == 0 { self.bad_pops += 1; return Err(error::ErrorKind::MissingScope.into()); }
        self.n -= 1;
        if self.kinds[self.n] == Self::tag(s) { Ok(()) } else { self.bad_pops += 1; Err(error::ErrorKind::MissingScope.into()) }
    }
}
pub struct DSh { pub env: DEnv, pub opts: DOpts, pub assign_fail_at: u8, pub assigns: u8, pub assign_depths_ok: bool, pub traces: u8, pub body_fails: bool, pub bodies: u8, pub body_depth: usize, pub code: u8, pub hook_installed: bool }
impl DSh {
    pub fn env_mut(&mut self) -> &mut DEnv { &mut self.env }
    pub fn options(&self) -> &DOpts { &self.opts }
    pub fn trace(&mut self) { self.traces += 1; }
}
fn apply_assignment_oracle(sh: &mut DSh) -> Result<(), error::Error> {
    sh.assigns += 1;
    // the assignment must land in the freshly pushed Command scope
    if !(sh.env.n >= 1 && sh.env.kinds[sh.env.n - 1] == 2) { sh.assign_depths_ok = false; }
    if sh.assigns == sh.assign_fail_at { Err(error::ErrorKind::ReadonlyVariable.into()) } else { Ok(()) }
}
pub enum ShellForCommand<'a> { ParentShell(&'a mut DSh) }
impl std::ops::Deref for ShellForCommand<'_> { type Target = DSh; fn deref(&self) -> &DSh { match self { ShellForCommand::ParentShell(s) => s } } }
impl std::ops::DerefMut for ShellForCommand<'_> { fn deref_mut(&mut self) -> &mut DSh { match self { ShellForCommand::ParentShell(s) => s } } }
pub struct PipelineExecutionContext<'a> { pub shell: ShellForCommand<'a>, pub process_group_id: Option<i32> }
pub mod commands {
    use super::{error, DSh, ExecutionResult, ExecutionSpawnResult, ShellForCommand};
    pub struct SimpleCommand<'a> { pub shell: ShellForCommand<'a>, pub process_group_id: Option<i32>, pub post_execute: Option<fn(&mut DSh) -> Result<(), error::Error>> }
    impl<'a> SimpleCommand<'a> {
        pub fn new<P, I: Iterator>(shell: ShellForCommand<'a>, _params: P, name: String, args: I) -> Self { std::mem::forget(name); for a in args { std::mem::forget(a); } SimpleCommand { shell, process_group_id: None, post_execute: None } }
        /// contract of SimpleCommand::execute in the parent shell (vk_c18_simple_command_post_execute_once): body at most once, then the hook exactly once
        pub fn execute(mut self) -> Result<ExecutionSpawnResult, error::Error> {
            self.shell.bodies += 1; self.shell.body_depth = self.shell.env.n;
            self.shell.hook_installed = self.post_execute.is_some();
            let fails = self.shell.body_fails; let code = self.shell.code;
            if let Some(h) = self.post_execute { let r = h(&mut self.shell); std::mem::forget(r); }
            if fails { Err(error::ErrorKind::NotArray.into()) } else { Ok(ExecutionSpawnResult::Completed(ExecutionResult::new(code))) }
        }
    }
    pub fn on_preexecute(_c: &mut SimpleCommand<'_>) -> Result<(), error::Error> { Ok(()) }
}
pub struct ArgTok;
impl ArgTok { pub fn quote_for_tracing(&self) -> String { String::new() } }
impl Clone for ArgTok { fn clone(&self) -> Self { ArgTok } }

/*@LIFT scope_guard*/

fn t_exec_cmd(mut context: PipelineExecutionContext<'_>, params: u8, cmd_name: String, assignments: &[u8], args: &[ArgTok]) -> Result<ExecutionSpawnResult, error::Error> {
/*@LIFT exec_cmd*/
}

//@proof {'props': ['C09', 'C18'], 'tier': 'quick', 'timeout': 900, 'uses': ['scope_guard', 'exec_cmd'], 'bounds': '0..2 prefix assignments (symbolic), the k-th of which may fail (symbolic); xtrace on/off; command body fails or not; 0..2 scopes below the command', 'desc': '`NAME=v cmd`: exactly one Command scope is pushed; every prefix assignment is applied inside it; if an assignment fails the scope is popped again and the command does not run; otherwise the command runs inside the scope and the installed hook pops exactly that scope afterwards - on every path the scope stack ends as it began'}
#[kani::proof]
#[kani::unwind(4)]
fn vk_c09_temporary_assignment_scope_pairing() {
    let base: usize = kani::any(); kani::assume(base >= 1 && base <= 3);
    let nassign: usize = kani::any(); kani::assume(nassign <= 2);
    let fail_at: u8 = kani::any(); kani::assume(fail_at <= 3);
    let mut sh = DSh { env: DEnv { kinds: [1, 0, 0, 0], n: base, pushes: 0, pops: 0, bad_pops: 0 }, opts: DOpts { print_commands_and_arguments: kani::any() },
                       assign_fail_at: fail_at, assigns: 0, assign_depths_ok: true, traces: 0, body_fails: kani::any(), bodies: 0, body_depth: 0, code: kani::any(), hook_installed: false };
    let assigns = [0u8, 0u8];
    let args: [ArgTok; 0] = [];
    let ctx = PipelineExecutionContext { shell: ShellForCommand::ParentShell(&mut sh), process_group_id: None };
    let r = t_exec_cmd(ctx, 0, String::new(), &assigns[..nassign], &args);
    let assignment_failed = fail_at >= 1 && (fail_at as usize) <= nassign;
    kani::cover!(assignment_failed && fail_at == 2, "second_prefix_assignment_fails");
    kani::cover!(!assignment_failed && nassign == 2 && sh.body_fails, "command_fails_after_two_assignments");
    assert!(sh.env.pushes == 1, "C09.temp.exactly_one_command_scope_pushed");
    assert!(sh.assign_depths_ok, "C09.temp.assignments_land_in_the_command_scope");
    assert!(sh.env.n == base && sh.env.pops == 1 && sh.env.bad_pops == 0, "C18.temp.scope_stack_restored_on_every_path");
    if assignment_failed {
        assert!(sh.assigns == fail_at && sh.bodies == 0 && r.is_err(), "C09.temp.failed_prefix_assignment_aborts_the_command");
    } else {
        assert!(sh.assigns as usize == nassign && sh.bodies == 1 && sh.body_depth == base + 1 && sh.hook_installed, "C09.temp.command_runs_inside_the_scope_with_the_pop_hook_installed");
        assert!(r.is_err() == sh.body_fails, "C09.temp.command_result_returned");
    }
    std::mem::forget(r);
}
