/*@meta
{
 'package': 'brush-core',
 'host': 'brush-core/src/history.rs',
 'stubs': ['tracing -> no-op stub crate',
           'transplant of History::import (the line loop) and History::add: the reader is a list of <= 3 line tokens of symbolic kind (valid #epoch line / other comment / command / unreadable line / I/O error), `Item`, `ItemTimestamp` and the two rpds containers are light stand-ins defined inside the harness module',
           'str::strip_prefix("#") / trim / parse on a line -> answered by the token from its symbolic kind'],
 'assumptions': ['the text of a line matters only through its classification (timestamp comment, other comment, command)'],
 'out_of_claim': ['classification of real line text (strip_prefix / trim / parse on strings)', 'the real rpds containers', 'multi-line commands', 'the reedline adapter'],
}
@*/
/*@recipes
{
 'import': {'file': 'brush-core/src/history.rs', 'start': r'pub fn import\(reader: impl Read\) -> Result<Self, error::Error>', 'mode': 'fn_body',
        'rewrites': [[r'Self::default\(\)', r'Hist::default()', 1],
                     [r'std::io::BufReader::new\(reader\)', r'reader', 1]]},
 'add': {'file': 'brush-core/src/history.rs', 'start': r'pub fn add\(&mut self, mut item: Item\) -> Result<ItemId, error::Error>', 'mode': 'fn_body', 'self_to': 'this'},
}
@*/
use super::{error, ItemId};

// ---------------------------------------------------------------- light stand-ins (shadow the module's own names inside this harness module)
#[derive(Clone, Copy, PartialEq, Eq)]
pub struct Ts(pub i64);
pub struct ItemTimestamp;
impl ItemTimestamp { pub fn from_timestamp(secs: i64, _ns: u32) -> Option<Ts> { Some(Ts(secs)) } }
#[derive(Clone, Copy)]
pub struct Line { pub kind: u8, pub secs: i64, pub id: u8 }       // kind 0 command, 1 valid `#epoch`, 2 other comment
pub struct Comment { pub valid: bool, pub secs: i64 }
impl Line { pub fn strip_prefix(&self, _p: &str) -> Option<Comment> { match self.kind { 1 => Some(Comment { valid: true, secs: self.secs }), 2 => Some(Comment { valid: false, secs: 0 }), _ => None } } }
impl Comment { pub fn trim(&self) -> &Comment { self } pub fn parse(&self) -> Result<i64, ()> { if self.valid { Ok(self.secs) } else { Err(()) } } }
pub struct Item { pub id: ItemId, pub command_line: Line, pub timestamp: Option<Ts>, pub dirty: bool }
pub struct IdList { pub n: usize }
impl IdList { pub fn push_back_mut(&mut self, _id: ItemId) { self.n += 1; } }
pub struct IdMap { pub items: [Option<(u8, Option<Ts>, bool, ItemId)>; 3], pub n: usize }
impl IdMap { pub fn insert_mut(&mut self, id: ItemId, it: Item) { let n = self.n; kani::assume(n < 3); self.items[n] = Some((it.command_line.id, it.timestamp, it.dirty, id)); self.n += 1; std::mem::forget(it); } }
pub struct Hist { pub next_id: ItemId, pub items: IdList, pub id_map: IdMap }
impl Default for Hist { fn default() -> Self { Hist { next_id: 0, items: IdList { n: 0 }, id_map: IdMap { items: [None, None, None], n: 0 } } } }
impl Hist { pub fn add(&mut self, item: Item) -> Result<ItemId, error::Error> { t_add(self, item) } }
/// a reader handing out <= 3 lines; a line result is Ok(line), an undecodable line (skipped by import), or an I/O error (import gives up)
pub struct IoErr { pub invalid_data: bool }
impl IoErr { pub fn kind(&self) -> std::io::ErrorKind { if self.invalid_data { std::io::ErrorKind::InvalidData } else { std::io::ErrorKind::Other } } }
impl std::fmt::Display for IoErr { fn fmt(&self, _f: &mut std::fmt::Formatter<'_>) -> std::fmt::Result { Ok(()) } }
impl From<IoErr> for error::Error { fn from(e: IoErr) -> Self { std::mem::forget(e); error::ErrorKind::NotArray.into() } }
pub struct Reader { pub lines: [Line; 3], pub bad: [u8; 3], pub n: usize }
pub struct LineIter { r: Reader, i: usize }
impl Reader { pub fn lines(self) -> LineIter { LineIter { r: self, i: 0 } } }
impl Iterator for LineIter { type Item = Result<Line, IoErr>; fn next(&mut self) -> Option<Self::Item> { let i = self.i; self.i += 1; if i >= 3 { None } else if i >= self.r.n { None } else if self.r.bad[i] == 1 { Some(Err(IoErr { invalid_data: true })) } else if self.r.bad[i] == 2 { Some(Err(IoErr { invalid_data: false })) } else { Some(Ok(self.r.lines[i])) } } }

fn t_add(this: &mut Hist, mut item: Item) -> Result<ItemId, error::Error> {
/*@LIFT add*/
}
fn t_import(reader: Reader) -> Result<Hist, error::Error> {
/*@LIFT import*/
}

//@proof {'props': ['C20'], 'tier': 'quick', 'timeout': 900, 'uses': ['import', 'add'], 'bounds': 'a history file of <= 3 lines, each a command, a valid `#epoch` line, another comment, an undecodable line or (once) an I/O error - all symbolic; epoch values symbolic', 'desc': 'reloading: the items are exactly the command lines, in file order, with consecutive ids, all marked saved; a command carries a timestamp iff the line immediately before it is a valid `#epoch` line, and then exactly that value - a timestamp is consumed by one command and never inherited by later ones; undecodable lines are skipped, an I/O error aborts'}
#[kani::proof]
#[kani::unwind(5)]
fn vk_c20_import_sequence_and_timestamps() {
    let n: usize = kani::any(); kani::assume(n <= 3);
    let mk = |id: u8| { let k: u8 = kani::any(); kani::assume(k < 3); Line { kind: k, secs: kani::any(), id } };
    let lines = [mk(0), mk(1), mk(2)];
    let bad: [u8; 3] = [kani::any(), kani::any(), kani::any()];
    kani::assume(bad[0] < 3 && bad[1] < 3 && bad[2] < 3);
    let r = t_import(Reader { lines, bad, n });
    // reference
    let mut io_error = false; let mut k = 0usize; let mut exp: [(u8, Option<Ts>); 3] = [(9, None); 3]; let mut pending: Option<Ts> = None;
    let mut i = 0;
    while i < 3 {
        if i < n && !io_error {
            if bad[i] == 2 { io_error = true; }
            else if bad[i] == 1 { /* skipped; bash keeps going too */ }
            else if lines[i].kind == 1 { pending = Some(Ts(lines[i].secs)); }
            else if lines[i].kind == 2 { pending = None; }
            else { exp[k] = (lines[i].id, pending); pending = None; k += 1; }
        }
        i += 1;
    }
    kani::cover!(!io_error && k == 2 && exp[0].1.is_some() && exp[1].1.is_none(), "timestamped_command_followed_by_plain_command");
    kani::cover!(io_error, "io_error");
    if io_error { assert!(r.is_err(), "C20.import.io_error_aborts"); }
    else {
        assert!(r.is_ok(), "C20.import.succeeds");
        if let Ok(h) = &r {
            assert!(h.id_map.n == k && h.items.n == k, "C20.import.one_item_per_command_line");
            let mut j = 0;
            while j < 3 {
                if j < k {
                    let got = h.id_map.items[j];
                    assert!(matches!(got, Some((id, ts, dirty, iid)) if id == exp[j].0 && ts == exp[j].1 && !dirty && iid as usize == j), "C20.import.order_ids_timestamps_and_saved_flag");
                }
                j += 1;
            }
        }
    }
    std::mem::forget(r);
}
