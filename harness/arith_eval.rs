/*@meta
{
 'package': 'brush-core',
 'host': 'brush-core/src/arithmetic.rs',
 'direct': ['arithmetic::wrapping_pow_u64', 'arithmetic::bool_to_i64'],
 'stubs': ['tracing -> no-op stub crate',
           'eval_expr_impl / deref_lvalue / assign / apply_unary_op / apply_binary_op calls inside the lifted bodies -> oracle methods (operand values symbolic, call order recorded)'],
 'assumptions': ['operands are arbitrary i64 delivered by an oracle in place of recursive sub-expression evaluation (structural induction over the expression tree)'],
 'out_of_claim': ['operator precedence / associativity / spacing (PEG precedence! table): swapping two precedence levels is NOT detectable here',
                  'hex / octal / decimal literal text -> value (library str->int conversions on strings; D12)',
                  'recursive evaluation of variable contents through the grammar and the cache', 'array subscripts', 'let builtin',
                  '** with symbolic base AND exponent > 3 (64-bit symbolic multiply chain)'],
}
@*/
/*@recipes
{
 'binop': {'file': 'brush-core/src/arithmetic.rs', 'start': r'^fn apply_binary_op\(', 'mode': 'fn_body',
           'rewrites': [[r'eval_expr_impl\((\w+), shell, depth\)', r'__o.ev(\1)', 6]]},
 'unop': {'file': 'brush-core/src/arithmetic.rs', 'start': r'^fn apply_unary_op\(', 'mode': 'fn_body',
          'rewrites': [[r'eval_expr_impl\((\w+), shell, depth\)', r'__o.ev(\1)', 1]]},
 'incdec': {'file': 'brush-core/src/arithmetic.rs', 'start': r'^fn apply_unary_assignment_op\(', 'mode': 'fn_body',
            'rewrites': [[r'pin_subscript\(shell, &?(\w+), depth\)', r'__o.pin(&\1)', 0],
                         [r'deref_lvalue\(shell, &?(\w+), depth\)', r'__o.deref(&\1)', 1],
                         [r'assign\(shell, (\w+), (\w+), depth\)', r'__o.assign(\1, \2)', 4]]},
 'dispatch': {'file': 'brush-core/src/arithmetic.rs', 'start': r'^fn eval_expr_impl\(', 'mode': 'fn_body',
            'rewrites': [[r'eval_expr_impl\((\w+), shell, depth\)', r'__o.ev(\1)', 4],
                         [r'pin_subscript\(shell, &?(\w+), depth\)', r'__o.pin(&\1)', 0],
                         [r'deref_lvalue\(shell, &?(\w+), depth\)', r'__o.deref(&\1)', 1],
                         [r'assign\(shell, &?(\w+), (\w+), depth\)', r'__o.assign(&\1, \2)', 1],
                         [r'apply_unary_op\(shell, \*op, (\w+), depth\)', r'__o.unop(*op, \1)', 1],
                         [r'apply_unary_assignment_op\(shell, &?(\w+), \*op, depth\)', r'__o.incdec(&\1, *op)', 1],
                         [r'apply_binary_op\(\s*shell,\s*\*op,\s*([^,]+),\s*([^,]+),\s*depth,?\s*\)', r'__o.binop(*op, \1, \2)', 1]]},
}
@*/
use super::*;
use crate::vk_prelude::*;

// ---------------------------------------------------------------- oracle standing in for sub-expression evaluation
// Sub-expressions are tagged literals: Literal(0) = left / condition / operand, Literal(1) = right / then, Literal(2) = else.
pub struct Oracle {
    pub vals: [i64; 3],
    pub fails: [bool; 3],
    pub calls: [u8; 3],
    pub order: [u8; 4],
    pub n: usize,
    pub deref_val: i64,
    pub derefs: u8,
    pub assigned: Option<i64>,
    pub assigns: u8,
    pub assign_after_ev: bool,
    pub binop_args: Option<(u8, bool, u8)>, // (op tag, left is Reference, right tag)
    pub binop_ret: i64,
    pub unops: u8,
    pub incdecs: u8,
}
impl Oracle {
    fn new() -> Self {
        Self { vals: [kani::any(), kani::any(), kani::any()], fails: [false; 3], calls: [0; 3], order: [9; 4], n: 0, deref_val: kani::any(), derefs: 0,
               assigned: None, assigns: 0, assign_after_ev: false, binop_args: None, binop_ret: kani::any(), unops: 0, incdecs: 0 }
    }
    fn ev(&mut self, e: &ast::ArithmeticExpr) -> Result<i64, EvalError> {
        let tag = match e { ast::ArithmeticExpr::Literal(t) => *t as usize, _ => 3 };
        assert!(tag < 3, "oracle: unexpected sub-expression");
        self.calls[tag] += 1;
        if self.n < 4 { self.order[self.n] = tag as u8; }
        self.n += 1;
        if self.fails[tag] { return Err(EvalError::DivideByZero); }
        Ok(self.vals[tag])
    }
    fn deref(&mut self, _l: &ast::ArithmeticTarget) -> Result<i64, EvalError> { self.derefs += 1; Ok(self.deref_val) }
    /// pin_subscript on a plain variable target (the targets of these harnesses) is the identity (vk_c07_pin_subscript)
    fn pin(&mut self, l: &ast::ArithmeticTarget) -> Result<ast::ArithmeticTarget, EvalError> { Ok(l.clone()) }
    fn assign(&mut self, _l: &ast::ArithmeticTarget, v: i64) -> Result<i64, EvalError> {
        self.assigns += 1; self.assigned = Some(v); self.assign_after_ev = self.n > 0 || self.binop_args.is_some(); Ok(v)
    }
    fn unop(&mut self, _op: ast::UnaryOperator, _e: &ast::ArithmeticExpr) -> Result<i64, EvalError> { self.unops += 1; Ok(self.binop_ret) }
    fn incdec(&mut self, _l: &ast::ArithmeticTarget, _op: ast::UnaryAssignmentOperator) -> Result<i64, EvalError> { self.incdecs += 1; Ok(self.binop_ret) }
    fn binop(&mut self, op: ast::BinaryOperator, l: &ast::ArithmeticExpr, r: &ast::ArithmeticExpr) -> Result<i64, EvalError> {
        let lt = matches!(l, ast::ArithmeticExpr::Reference(_));
        let rt = match r { ast::ArithmeticExpr::Literal(t) => *t as u8, _ => 9 };
        self.binop_args = Some((op_tag(op), lt, rt));
        Ok(self.binop_ret)
    }
}

// ---------------------------------------------------------------- lifted kernels (the repository's statements, unchanged)
fn k_binop(__o: &mut Oracle, op: ast::BinaryOperator, left: &ast::ArithmeticExpr, right: &ast::ArithmeticExpr) -> Result<i64, EvalError> {
/*@LIFT binop*/
}

fn k_unop(__o: &mut Oracle, op: ast::UnaryOperator, operand: &ast::ArithmeticExpr) -> Result<i64, EvalError> {
/*@LIFT unop*/
}

fn k_incdec(__o: &mut Oracle, lvalue: &ast::ArithmeticTarget, op: ast::UnaryAssignmentOperator) -> Result<i64, EvalError> {
/*@LIFT incdec*/
}

fn k_dispatch(__o: &mut Oracle, expr: &ast::ArithmeticExpr) -> Result<i64, EvalError> {
/*@LIFT dispatch*/
}

// ---------------------------------------------------------------- reference: C on two's-complement i64 as bash's expr.c
const ALL_OPS: [ast::BinaryOperator; 20] = [
    ast::BinaryOperator::Power, ast::BinaryOperator::Multiply, ast::BinaryOperator::Divide, ast::BinaryOperator::Modulo,
    ast::BinaryOperator::Comma, ast::BinaryOperator::Add, ast::BinaryOperator::Subtract, ast::BinaryOperator::ShiftLeft,
    ast::BinaryOperator::ShiftRight, ast::BinaryOperator::LessThan, ast::BinaryOperator::LessThanOrEqualTo,
    ast::BinaryOperator::GreaterThan, ast::BinaryOperator::GreaterThanOrEqualTo, ast::BinaryOperator::Equals,
    ast::BinaryOperator::NotEquals, ast::BinaryOperator::BitwiseAnd, ast::BinaryOperator::BitwiseXor, ast::BinaryOperator::BitwiseOr,
    ast::BinaryOperator::LogicalAnd, ast::BinaryOperator::LogicalOr,
];
fn op_tag(op: ast::BinaryOperator) -> u8 {
    use ast::BinaryOperator as B;
    match op {
        B::Power => 0, B::Multiply => 1, B::Divide => 2, B::Modulo => 3, B::Comma => 4, B::Add => 5, B::Subtract => 6,
        B::ShiftLeft => 7, B::ShiftRight => 8, B::LessThan => 9, B::LessThanOrEqualTo => 10, B::GreaterThan => 11,
        B::GreaterThanOrEqualTo => 12, B::Equals => 13, B::NotEquals => 14, B::BitwiseAnd => 15, B::BitwiseXor => 16,
        B::BitwiseOr => 17, B::LogicalAnd => 18, B::LogicalOr => 19,
    }
}
fn tag_op(t: u8) -> ast::BinaryOperator { ALL_OPS[t as usize] }

/// Independent reference for the operators whose circuit is cheap (no multiplier / divider).
fn spec_cheap(t: u8, a: i64, b: i64) -> i64 {
    match t {
        4 => b,
        5 => ((a as u64).wrapping_add(b as u64)) as i64,
        6 => ((a as u64).wrapping_sub(b as u64)) as i64,
        7 => ((a as u64) << ((b as u64) & 63)) as i64,          // shift count masked to 6 bits (x86-64 C behaviour bash inherits)
        8 => a >> ((b as u64) & 63),                             // arithmetic shift
        9 => (a < b) as i64,
        10 => (a <= b) as i64,
        11 => (a > b) as i64,
        12 => (a >= b) as i64,
        13 => (a == b) as i64,
        14 => (a != b) as i64,
        15 => a & b,
        16 => a ^ b,
        17 => a | b,
        _ => 0,
    }
}

fn lits() -> (ast::ArithmeticExpr, ast::ArithmeticExpr) { (ast::ArithmeticExpr::Literal(0), ast::ArithmeticExpr::Literal(1)) }

//@proof {'props': ['C07', 'C01'], 'tier': 'quick', 'timeout': 600, 'bounds': 'operands any i64; 14 operators (, + - << >> < <= > >= == != & ^ |) chosen symbolically', 'desc': 'lifted operator table of apply_binary_op vs independent two\'s-complement reference; both operands evaluated exactly once, left first', 'uses': ['binop']}
#[kani::proof]
#[kani::unwind(2)]
fn vk_c07_binop_table_cheap() {
    let t: u8 = kani::any();
    kani::assume(t >= 4 && t <= 17);
    let (l, r) = lits();
    let mut o = Oracle::new();
    let res = k_binop(&mut o, tag_op(t), &l, &r);
    kani::cover!(t == 7 && o.vals[1] == 64 && o.vals[0] == 1, "shift_by_64");
    kani::cover!(t == 6 && o.vals[0] == i64::MIN && o.vals[1] == 1, "min_minus_one");
    let v = vk_ok(res);
    assert!(v == spec_cheap(t, o.vals[0], o.vals[1]), "C07.binop.value");
    assert!(o.calls[0] == 1 && o.calls[1] == 1 && o.order[0] == 0 && o.order[1] == 1, "C07.binop.operands_once_left_first");
    std::mem::forget(l); std::mem::forget(r);
}

//@proof {'props': ['C07', 'C01'], 'tier': 'quick', 'timeout': 600, 'uses': ['binop'], 'bounds': 'operands any i64; / and %', 'desc': 'division and remainder guards: error iff the divisor is 0; MIN / -1 = MIN and MIN % -1 = 0 without trapping; never panics; both operands evaluated once, left first'}
#[kani::proof]
#[kani::unwind(2)]
fn vk_c07_divmod_guards() {
    let is_div: bool = kani::any();
    let (l, r) = lits();
    let mut o = Oracle::new();
    let res = k_binop(&mut o, if is_div { ast::BinaryOperator::Divide } else { ast::BinaryOperator::Modulo }, &l, &r);
    let (a, b) = (o.vals[0], o.vals[1]);
    kani::cover!(a == i64::MIN && b == -1, "min_div_minus_one");
    kani::cover!(b == 0, "div_by_zero");
    if b == 0 {
        assert!(matches!(res, Err(EvalError::DivideByZero)), "C07.divmod.zero_is_error");
    } else {
        let v = vk_ok(res);
        if a == i64::MIN && b == -1 { assert!(v == if is_div { i64::MIN } else { 0 }, "C07.divmod.min_by_minus_one"); }
        if b == 1 { assert!(v == if is_div { a } else { 0 }, "C07.divmod.by_one"); }
        if b == -1 && !is_div { assert!(v == 0, "C07.divmod.rem_by_minus_one"); }
    }
    assert!(o.calls[0] == 1 && o.calls[1] == 1 && o.order[0] == 0, "C07.divmod.operands_once_left_first");
    std::mem::forget(l); std::mem::forget(r);
}

//@proof {'props': ['C07'], 'tier': 'quick', 'timeout': 900, 'uses': ['binop'], 'bounds': 'dividend and divisor in -2^15..2^15 (the 64-bit divider does not finish on full-width symbolic operands)', 'desc': 'C truncating division: q*b + r == a, |r| < |b|, r has the sign of a; dividend is the LEFT operand'}
#[kani::proof]
#[kani::unwind(2)]
fn vk_c07_divmod_values_16bit() {
    let (l, r) = lits();
    let mut o = Oracle::new();
    kani::assume(o.vals[0] >= -32768 && o.vals[0] < 32768 && o.vals[1] >= -32768 && o.vals[1] < 32768 && o.vals[1] != 0);
    let (a, b) = (o.vals[0], o.vals[1]);
    let q = vk_ok(k_binop(&mut o, ast::BinaryOperator::Divide, &l, &r));
    let m = vk_ok(k_binop(&mut o, ast::BinaryOperator::Modulo, &l, &r));
    kani::cover!(a == -7 && b == 2, "negative_dividend_truncates_toward_zero");
    assert!(q * b + m == a, "C07.divmod.identity");
    assert!((if m < 0 { -m } else { m }) < (if b < 0 { -b } else { b }), "C07.divmod.remainder_smaller_than_divisor");
    assert!(m == 0 || ((m < 0) == (a < 0)), "C07.divmod.remainder_has_sign_of_dividend");
    std::mem::forget(l); std::mem::forget(r);
}

//@proof {'props': ['C07', 'C01'], 'tier': 'quick', 'timeout': 600, 'bounds': 'operands any i64; *', 'desc': 'multiplication wraps (same primitive) and is the product of (left, right); cross-checked against shifts for powers of two', 'uses': ['binop']}
#[kani::proof]
#[kani::unwind(2)]
fn vk_c07_binop_mul() {
    let (l, r) = lits();
    let mut o = Oracle::new();
    let k: u8 = kani::any();
    kani::assume(k < 64);
    o.vals[1] = 1i64.wrapping_shl(k as u32);       // right operand is a power of two: independent reference = shift
    let res = k_binop(&mut o, ast::BinaryOperator::Multiply, &l, &r);
    let v = vk_ok(res);
    kani::cover!(k == 63 && o.vals[0] == 3, "overflowing_product");
    assert!(v == ((o.vals[0] as u64) << k) as i64, "C07.mul.power_of_two");
    assert!(o.calls[0] == 1 && o.calls[1] == 1, "C07.mul.operands_once");
    std::mem::forget(l); std::mem::forget(r);
}

//@proof {'props': ['C07', 'C01'], 'tier': 'quick', 'timeout': 600, 'bounds': 'operands any i64; && and ||; either operand may fail', 'desc': 'short-circuit: right side evaluated iff needed, each side at most once, result 0/1, errors propagate', 'uses': ['binop']}
#[kani::proof]
#[kani::unwind(2)]
fn vk_c07_logical_short_circuit() {
    let is_and: bool = kani::any();
    let (l, r) = lits();
    let mut o = Oracle::new();
    o.fails = [kani::any(), kani::any(), false];
    let res = k_binop(&mut o, if is_and { ast::BinaryOperator::LogicalAnd } else { ast::BinaryOperator::LogicalOr }, &l, &r);
    let (a, b) = (o.vals[0], o.vals[1]);
    kani::cover!(!o.fails[0] && is_and && a == 0, "and_short_circuits");
    kani::cover!(!o.fails[0] && !is_and && a != 0 && o.fails[1], "or_skips_failing_rhs");
    assert!(o.calls[0] == 1 && o.order[0] == 0, "C07.logical.left_once_first");
    if o.fails[0] {
        assert!(res.is_err() && o.calls[1] == 0, "C07.logical.left_error_propagates");
    } else {
        let need_right = if is_and { a != 0 } else { a == 0 };
        assert!(o.calls[1] == if need_right { 1 } else { 0 }, "C07.logical.right_iff_needed");
        if need_right && o.fails[1] {
            assert!(res.is_err(), "C07.logical.right_error_propagates");
        } else {
            let expect = if is_and { (a != 0 && b != 0) as i64 } else { (a != 0 || b != 0) as i64 };
            assert!(matches!(res, Ok(v) if v == expect), "C07.logical.value");
        }
    }
    std::mem::forget(res); std::mem::forget(l); std::mem::forget(r);
}

//@proof {'props': ['C07', 'C01'], 'tier': 'thorough', 'timeout': 2400, 'uses': ['binop'], 'bounds': 'base any i64, exponent any i64 <= 2', 'desc': '** : a negative exponent is an error; exponents 0,1,2 give 1, a, a*a (wrapping)'}
#[kani::proof]
#[kani::unwind(4)]
fn vk_c07_pow_small_exponent() {
    let (l, r) = lits();
    let mut o = Oracle::new();
    kani::assume(o.vals[1] <= 2);
    let res = k_binop(&mut o, ast::BinaryOperator::Power, &l, &r);
    let (a, b) = (o.vals[0], o.vals[1]);
    kani::cover!(b == 2 && a == i64::MIN, "square_of_min");
    kani::cover!(b == -1, "negative_exponent");
    if b < 0 {
        assert!(matches!(res, Err(EvalError::NegativeExponent)), "C07.pow.negative_is_error");
    } else {
        let v = vk_ok(res);
        let expect = match b { 0 => 1, 1 => a, _ => a.wrapping_mul(a) };
        assert!(v == expect, "C07.pow.small");
    }
    assert!(o.calls[0] == 1 && o.calls[1] == 1 && o.order[0] == 0, "C07.pow.operands_once_left_first");
    std::mem::forget(l); std::mem::forget(r);
}

//@proof {'props': ['C07'], 'tier': 'thorough', 'timeout': 1800, 'bounds': 'base in -2^15..2^15, exponent 3..=4', 'desc': '** with exponent 3 and 4 on 16-bit bases vs repeated multiplication', 'uses': []}
#[kani::proof]
#[kani::unwind(5)]
fn vk_c07_pow_exponent_3_4_16bit() {
    let a: i64 = kani::any();
    kani::assume(a >= -32768 && a < 32768);
    let e: u64 = if kani::any() { 3 } else { 4 };
    let v = wrapping_pow_u64(a, e);
    kani::cover!(a == -3 && e == 3, "minus_three_cubed");
    let cube = a * a * a;
    assert!(v == if e == 3 { cube } else { cube.wrapping_mul(a) }, "C07.pow.exponent_3_4");
}

//@proof {'props': ['C07', 'C01'], 'tier': 'quick', 'timeout': 900, 'bounds': 'base in {0,1,-1,2,-2}, exponent any u64 (65 loop iterations)', 'desc': 'wrapping_pow_u64 on bases with closed forms, any 64-bit exponent: terminates within 64 halvings, no overflow panic, value = closed form', 'uses': []}
#[kani::proof]
#[kani::unwind(66)]
fn vk_c07_pow_closed_forms() {
    let which: u8 = any_below(5);
    let base: i64 = match which { 0 => 0, 1 => 1, 2 => -1, 3 => 2, _ => -2 };
    let e: u64 = kani::any();
    let v = wrapping_pow_u64(base, e);
    kani::cover!(which == 4 && e == 63, "minus_two_pow_63");
    let expect: i64 = match which {
        0 => if e == 0 { 1 } else { 0 },
        1 => 1,
        2 => if e % 2 == 0 { 1 } else { -1 },
        3 => if e >= 64 { 0 } else { (1u64 << e) as i64 },
        _ => if e >= 64 { 0 } else if e % 2 == 0 { (1u64 << e) as i64 } else { ((1u64 << e) as i64).wrapping_neg() },
    };
    assert!(v == expect, "C07.pow.closed_form");
}

//@proof {'props': ['C07', 'C01'], 'tier': 'quick', 'timeout': 600, 'bounds': 'operand any i64; + - ~ !', 'desc': 'unary operator table vs reference; -MIN wraps to MIN', 'uses': ['unop']}
#[kani::proof]
#[kani::unwind(2)]
fn vk_c07_unary_table() {
    let t: u8 = any_below(4);
    let op = match t { 0 => ast::UnaryOperator::UnaryPlus, 1 => ast::UnaryOperator::UnaryMinus, 2 => ast::UnaryOperator::BitwiseNot, _ => ast::UnaryOperator::LogicalNot };
    let (l, _r) = lits();
    let mut o = Oracle::new();
    let res = k_unop(&mut o, op, &l);
    let a = o.vals[0];
    kani::cover!(t == 1 && a == i64::MIN, "negate_min");
    let v = vk_ok(res);
    let expect = match t { 0 => a, 1 => (0u64.wrapping_sub(a as u64)) as i64, 2 => a ^ -1, _ => (a == 0) as i64 };
    assert!(v == expect, "C07.unary.value");
    assert!(o.calls[0] == 1, "C07.unary.operand_once");
    std::mem::forget(l); std::mem::forget(_r);
}

//@proof {'props': ['C07', 'C01'], 'tier': 'quick', 'timeout': 600, 'bounds': 'stored value any i64; ++x --x x++ x--', 'desc': 'increment/decrement: new value stored exactly once (wrapping), prefix returns new, postfix returns old, variable read exactly once', 'uses': ['incdec']}
#[kani::proof]
#[kani::unwind(2)]
fn vk_c07_incdec() {
    let t: u8 = any_below(4);
    let op = match t { 0 => ast::UnaryAssignmentOperator::PrefixIncrement, 1 => ast::UnaryAssignmentOperator::PrefixDecrement,
                       2 => ast::UnaryAssignmentOperator::PostfixIncrement, _ => ast::UnaryAssignmentOperator::PostfixDecrement };
    let lv = ast::ArithmeticTarget::Variable(String::new());
    let mut o = Oracle::new();
    let res = k_incdec(&mut o, &lv, op);
    let old = o.deref_val;
    kani::cover!(t == 2 && old == i64::MAX, "postinc_at_max");
    let v = vk_ok(res);
    let newv = if t == 0 || t == 2 { ((old as u64).wrapping_add(1)) as i64 } else { ((old as u64).wrapping_sub(1)) as i64 };
    assert!(o.derefs == 1 && o.assigns == 1, "C07.incdec.read_once_write_once");
    assert!(o.assigned == Some(newv), "C07.incdec.stored_value");
    assert!(v == if t < 2 { newv } else { old }, "C07.incdec.returned_value");
    std::mem::forget(lv);
}

//@proof {'props': ['C07'], 'tier': 'quick', 'timeout': 600, 'uses': ['dispatch'], 'bounds': 'condition/then/else values any i64', 'desc': '?: evaluates the condition once and exactly the selected branch, no other side effect'}
#[kani::proof]
#[kani::unwind(2)]
fn vk_c07_dispatch_conditional() {
    let mut o = Oracle::new();
    let e = ast::ArithmeticExpr::Conditional(Box::new(ast::ArithmeticExpr::Literal(0)), Box::new(ast::ArithmeticExpr::Literal(1)), Box::new(ast::ArithmeticExpr::Literal(2)));
    let res = k_dispatch(&mut o, &e);
    let c = o.vals[0];
    kani::cover!(c == 0, "else_branch");
    kani::cover!(c == i64::MIN, "then_branch_min");
    let v = vk_ok(res);
    assert!(o.calls[0] == 1 && o.order[0] == 0, "C07.cond.condition_once_first");
    if c != 0 { assert!(o.calls[1] == 1 && o.calls[2] == 0 && v == o.vals[1], "C07.cond.then_only"); }
    else { assert!(o.calls[1] == 0 && o.calls[2] == 1 && v == o.vals[2], "C07.cond.else_only"); }
    assert!(o.assigns == 0, "C07.cond.no_side_effect");
    std::mem::forget(e);
}

//@proof {'props': ['C07'], 'tier': 'quick', 'timeout': 600, 'uses': ['dispatch'], 'bounds': 'rhs value any i64', 'desc': 'x = e : evaluates e once, then stores exactly that value and yields it'}
#[kani::proof]
#[kani::unwind(2)]
fn vk_c07_dispatch_assignment() {
    let mut o = Oracle::new();
    let e = ast::ArithmeticExpr::Assignment(ast::ArithmeticTarget::Variable(String::new()), Box::new(ast::ArithmeticExpr::Literal(1)));
    let res = k_dispatch(&mut o, &e);
    let v = vk_ok(res);
    kani::cover!(v == -1, "assign_minus_one");
    assert!(o.calls[1] == 1 && o.assigns == 1 && o.assign_after_ev, "C07.assign.rhs_then_store");
    assert!(o.assigned == Some(o.vals[1]) && v == o.vals[1], "C07.assign.value");
    std::mem::forget(e);
}

// (the compound-assignment arm on the REAL expression tree - vk_c07_dispatch_op_assignment, thorough tier - was withdrawn after the repair of D24: the arm now clones the
// pinned target, and the drop glue of the real boxed tree no longer finishes in 1800 s; the same assertions are decided on the light tree by vk_c07_dispatch_contract)
