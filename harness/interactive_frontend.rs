/*@meta
{
 'package': 'brush-interactive',
 'host': 'brush-interactive/src/interactive_shell.rs',
 'stubs': ['transplant of InteractiveShell::run_interactively (the front-end used for commands on standard input and for interactive sessions): the shared shell behind the mutex is a counting stand-in; run_interactively_once -> oracle returning up to 3 outcomes (a result with arbitrary flow, a failure, end of input, or an input error)',
           'InteractiveExecutionResult / ShellError -> light stand-ins defined inside the harness module (the real Failed(Error) payload is dropped by the loop: drop glue)'],
 'assumptions': ['<= 3 commands are read', 'start / end_interactive_session are balanced if nothing below leaks a frame (C18)'],
 'out_of_claim': ['brush-shell entry.rs argument handling', 'what run_interactively_once does (prompt, reading, parsing, running)', 'history saving'],
}
@*/
/*@recipes
{
 'run_loop': {'file': 'brush-interactive/src/interactive_shell.rs', 'start': r'pub async fn run_interactively\(&mut self\) -> Result<\(\), ShellError>', 'mode': 'fn_body', 'self_to': 'this', 'deasync': True,
        'rewrites': [[r'this\.run_interactively_once\(\)', r'this.once()', 1]]},
}
@*/
use std::io::Write as _;

/// light error standing in for ShellError / brush_core::Error
pub struct ShellError(pub u8);
impl From<std::io::Error> for ShellError { fn from(e: std::io::Error) -> Self { std::mem::forget(e); ShellError(9) } }
impl std::fmt::Display for ShellError { fn fmt(&self, _f: &mut std::fmt::Formatter<'_>) -> std::fmt::Result { Ok(()) } }
pub enum InteractiveExecutionResult { Executed(brush_core::ExecutionResult), Failed(ShellError), Eof }

pub struct DOpts { pub interactive: bool, pub exit_after_one_command: bool }
pub struct Sink;
impl std::io::Write for Sink { fn write(&mut self, b: &[u8]) -> std::io::Result<usize> { Ok(b.len()) } fn flush(&mut self) -> std::io::Result<()> { Ok(()) } fn write_fmt(&mut self, _a: std::fmt::Arguments<'_>) -> std::io::Result<()> { Ok(()) } }
pub struct DSh { pub o: DOpts, pub t: u8, pub starts: u8, pub ends: u8, pub end_at: u8, pub exits: u8, pub exit_at: u8, pub saves: u8, pub displayed: u8, pub end_fails: bool, pub exit_fails: bool, pub last_cmd_at: u8 }
impl DSh {
    pub fn options(&self) -> &DOpts { &self.o }
    pub fn start_interactive_session(&mut self) -> Result<(), ShellError> { self.starts += 1; Ok(()) }
    pub fn end_interactive_session(&mut self) -> Result<(), ShellError> { self.t += 1; self.ends += 1; self.end_at = self.t; if self.end_fails { Err(ShellError(1)) } else { Ok(()) } }
    pub fn stderr(&self) -> Sink { Sink }
    pub fn display_error(&self, _w: &mut Sink, _e: &ShellError) -> Result<(), ShellError> { Ok(()) }
    pub fn save_history(&mut self) -> Result<(), ShellError> { self.saves += 1; Ok(()) }
    pub fn on_exit(&mut self) -> Result<(), ShellError> { self.t += 1; self.exits += 1; self.exit_at = self.t; if self.exit_fails { Err(ShellError(2)) } else { Ok(()) } }
}
pub struct Guard<'a>(pub &'a mut DSh);
impl std::ops::Deref for Guard<'_> { type Target = DSh; fn deref(&self) -> &DSh { self.0 } }
impl std::ops::DerefMut for Guard<'_> { fn deref_mut(&mut self) -> &mut DSh { self.0 } }
pub struct Cell { pub sh: DSh }
impl Cell { pub fn lock(&mut self) -> Guard<'_> { Guard(&mut self.sh) } }
/// outcome kinds: 0 executed/normal, 1 executed/exit, 2 executed/return, 3 failed, 4 eof, 5 input error
pub struct IShell { pub shell: Cell, pub outcomes: [u8; 3], pub n: usize }
impl IShell {
    fn once(&mut self) -> Result<InteractiveExecutionResult, ShellError> {
        let i = self.n; self.n += 1;
        self.shell.sh.t += 1; self.shell.sh.last_cmd_at = self.shell.sh.t;
        let k = if i < 3 { self.outcomes[i] } else { 4 };
        let ex = |f: brush_core::results::ExecutionControlFlow| { let mut r = brush_core::ExecutionResult::new(0); r.next_control_flow = f; InteractiveExecutionResult::Executed(r) };
        match k {
            0 => Ok(ex(brush_core::results::ExecutionControlFlow::Normal)),
            1 => Ok(ex(brush_core::results::ExecutionControlFlow::ExitShell)),
            2 => Ok(ex(brush_core::results::ExecutionControlFlow::ReturnFromFunctionOrScript)),
            3 => Ok(InteractiveExecutionResult::Failed(ShellError(3))),
            4 => Ok(InteractiveExecutionResult::Eof),
            _ => Err(ShellError(5)),
        }
    }
}

fn t_run_loop(this: &mut IShell) -> Result<(), ShellError> {
/*@LIFT run_loop*/
}

//@proof {'props': ['C16', 'C18'], 'tier': 'quick', 'timeout': 900, 'uses': ['run_loop'], 'bounds': 'up to 3 commands read from standard input, each ending normally, with exit, with a stray return, with a failure, or end of input; exit_after_one_command symbolic; the EXIT handler may fail', 'desc': 'stdin / interactive front-end: the session frame is opened once and closed once after the last command; on_exit (the EXIT trap) runs exactly once, after the last command and after the frame is closed, on every way out of the loop - `exit`, end of input, one-command mode - and a failing command does not end the session'}
#[kani::proof]
#[kani::unwind(6)]
fn vk_c16_stdin_frontend_exit_once() {
    let o: [u8; 3] = [kani::any(), kani::any(), kani::any()];
    kani::assume(o[0] < 5 && o[1] < 5 && o[2] < 5);
    let sh = DSh { o: DOpts { interactive: kani::any(), exit_after_one_command: kani::any() }, t: 0, starts: 0, ends: 0, end_at: 0, exits: 0, exit_at: 0, saves: 0, displayed: 0, end_fails: false, exit_fails: kani::any(), last_cmd_at: 0 };
    let mut is = IShell { shell: Cell { sh }, outcomes: o, n: 0 };
    let r = t_run_loop(&mut is);
    let s = &is.shell.sh;
    // reference: how many commands are read
    let stop = |k: u8| k == 1 || k == 4;
    let n_exp = if s.o.exit_after_one_command || stop(o[0]) { 1 } else if stop(o[1]) { 2 } else if stop(o[2]) { 3 } else { 4 };
    kani::cover!(o[0] == 3 && o[1] == 1, "failure_then_exit");
    kani::cover!(o[0] == 0 && o[1] == 0 && o[2] == 4, "two_commands_then_eof");
    assert!(is.n == n_exp, "C16.stdin.loop_ends_on_exit_eof_or_one_command_mode_only");
    assert!(s.starts == 1 && s.ends == 1, "C18.stdin.session_frame_opened_and_closed_once");
    assert!(s.exits == 1 && s.exit_at > s.end_at && s.end_at > s.last_cmd_at, "C16.stdin.exit_trap_exactly_once_after_the_last_command");
    assert!(r.is_err() == s.exit_fails, "C16.stdin.result");
    std::mem::forget(r);
}
