/*@meta
{
 'package': 'brush-core',
 'host': 'brush-core/src/interp.rs',
 'stubs': ['tracing -> no-op stub crate',
           'fully duck-typed environment: Shell, ExecutionParameters, PipelineExecutionContext, commands::ShellForCommand, ExecutionSpawnResult are defined inside the harness module and shadow the real names; descriptors are tokens (pipe id, read|write end)',
           'std::io::pipe() -> oracle handing out numbered pipes', 'simple.execute_in_pipeline(..).await -> oracle "a process was started" (records the descriptors and the shell the stage got)',
           'compound.execute(..).await / func.execute(..).await inside ExecuteInPipeline for ast::Command -> oracle "ran to completion inline" (records when)', 'setup_redirect -> oracle'],
 'assumptions': ['2-4 stages, each Simple or Compound (symbolic per stage)', 'pipe creation and stage launch do not fail (error paths end the harness path)'],
 'out_of_claim': ['that bytes actually flow, in order, once the wiring is right', 'liveness under pipe capacity and scheduling', 'SIGPIPE delivery', '`read` consuming exactly one line', 'command substitution draining', 'descriptor lifetimes inside OpenFiles'],
}
@*/
/*@recipes
{
 'spawn': {'file': 'brush-core/src/interp.rs', 'start': r'^async fn spawn_pipeline_processes\(', 'mode': 'fn_body', 'deasync': True,
        'rewrites': [[r'std::io::pipe\(\)', r'__o.pipe()', 1],
                     [r'command\s*\.execute_in_pipeline\(pipeline_context, cmd_params\)', r't_cmd_in_pipeline(command, pipeline_context, cmd_params, __o)', 1]]},
 'runs_in_current': {'file': 'brush-core/src/interp.rs', 'start': r'^fn runs_in_current_shell\(', 'mode': 'fn_body', 'if_absent': 'let _ = (pipeline_len, index, shell); false'},
 'cmd_in_pipeline': {'file': 'brush-core/src/interp.rs', 'start': r'ExecuteInPipeline<SE> for ast::Command \{\s*async fn execute_in_pipeline\(', 'mode': 'fn_body', 'self_to': 'this', 'deasync': True,
        'rewrites': [[r'Self::', r'ast::Command::', 3],
                     [r'simple\.execute_in_pipeline\(pipeline_context, params\)', r'__o.start_simple(pipeline_context, params)', 1],
                     [r'setup_redirect\(&mut pipeline_context\.shell, &mut params, redirect\)', r'__o.redirect()', 1],
                     [r'compound\s*\.execute\(&mut pipeline_context\.shell, &params\)', r'__o.run_inline(&mut pipeline_context, &params)', 1],
                     [r'func\s*\.execute\(&mut pipeline_context\.shell, &params\)', r'__o.run_inline(&mut pipeline_context, &params)', 1]]},
}
@*/
use super::{ast, error, ExecutionResult, OpenFiles, ProcessGroupPolicy, VecDeque};
use std::io::Write as _;
use crate::vk_prelude::*;

// ---- duck-typed environment (local names shadow the real ones inside this module)
#[derive(Clone, Copy, PartialEq, Eq)]
pub struct End { pub pipe: u8, pub write: bool }
#[derive(Clone, Default)]
pub struct MockOpenFiles { pub stdin: Option<End>, pub stdout: Option<End> }
impl MockOpenFiles { pub fn set_fd(&mut self, fd: i32, e: End) { if fd == OpenFiles::STDIN_FD { self.stdin = Some(e); } else if fd == OpenFiles::STDOUT_FD { self.stdout = Some(e); } } }
#[derive(Clone, Default)]
pub struct ExecutionParameters { pub open_files: MockOpenFiles, pub process_group_policy: ProcessGroupPolicy }
pub struct NullSink;
impl std::io::Write for NullSink { fn write(&mut self, b: &[u8]) -> std::io::Result<usize> { Ok(b.len()) } fn flush(&mut self) -> std::io::Result<()> { Ok(()) } fn write_fmt(&mut self, _a: std::fmt::Arguments<'_>) -> std::io::Result<()> { Ok(()) } }
impl ExecutionParameters { pub fn stderr(&self, _s: &commands::ShellForCommand<'_>) -> NullSink { NullSink } }
pub struct Opts { pub run_last_pipeline_cmd_in_current_shell: bool, pub enable_job_control: bool, pub do_not_execute_commands: bool }
pub struct Shell { pub opts: Opts, pub clones: u8 }
impl Shell {
    pub fn options(&self) -> &Opts { &self.opts }
    pub fn clone(&mut self) -> ShellTok { self.clones += 1; ShellTok }
}
pub struct ShellTok;
pub mod commands {
    pub enum ShellForCommand<'a> { ParentShell(&'a mut super::Shell), OwnedShell { target: Box<super::ShellTok>, parent: &'a mut super::Shell } }
    impl ShellForCommand<'_> {
        pub fn options(&self) -> &super::Opts { match self { ShellForCommand::ParentShell(s) => &s.opts, ShellForCommand::OwnedShell { parent, .. } => &parent.opts } }
        pub fn set_current_cmd(&mut self, _c: &super::ast::Command) {}
    }
}
pub struct PipelineExecutionContext<'a> { pub shell: commands::ShellForCommand<'a>, pub process_group_id: Option<i32> }
pub struct Child; impl Child { pub fn pgid(&self) -> Option<i32> { Some(7) } }
pub enum ExecutionSpawnResult { StartedProcess(Child), Completed(ExecutionResult) }
impl From<ExecutionResult> for ExecutionSpawnResult { fn from(r: ExecutionResult) -> Self { ExecutionSpawnResult::Completed(r) } }

pub struct WOracle {
    pub pipes: u8, pub stages: usize, pub t: u8,
    pub ins: [Option<End>; 4], pub outs: [Option<End>; 4], pub in_parent: [bool; 4], pub same_pg: [bool; 4], pub pgid_seen: [Option<i32>; 4],
    pub started_at: [u8; 4], pub completed_inline_at: [u8; 4],
    // what a stage that completes inside the call hands back: status and request (0 none, 1 exit, 2 return, 3 break); builtin[i]: the simple stage is a builtin (completes in the call)
    pub code: [u8; 4], pub flow: [u8; 4], pub builtin: [bool; 4],
}
impl WOracle {
    pub fn new() -> Self { WOracle { pipes: 0, stages: 0, t: 0, ins: [None; 4], outs: [None; 4], in_parent: [false; 4], same_pg: [false; 4], pgid_seen: [None; 4], started_at: [0; 4], completed_inline_at: [0; 4], code: [0; 4], flow: [0; 4], builtin: [false; 4] } }
    fn pipe(&mut self) -> Result<(End, End), error::Error> { let id = self.pipes; self.pipes += 1; Ok((End { pipe: id, write: false }, End { pipe: id, write: true })) }
    fn record(&mut self, ctx: &PipelineExecutionContext<'_>, p: &ExecutionParameters) -> usize {
        let i = self.stages; kani::assume(i < 4); self.stages += 1; self.t += 1;
        self.ins[i] = p.open_files.stdin; self.outs[i] = p.open_files.stdout;
        self.in_parent[i] = matches!(ctx.shell, commands::ShellForCommand::ParentShell(_));
        self.same_pg[i] = matches!(p.process_group_policy, ProcessGroupPolicy::SameProcessGroup);
        self.pgid_seen[i] = ctx.process_group_id;
        self.started_at[i] = self.t;
        i
    }
    /// a simple command: a process (or task) is started and the call returns while it runs
    fn start_simple(&mut self, ctx: PipelineExecutionContext<'_>, p: ExecutionParameters) -> Result<ExecutionSpawnResult, error::Error> {
        let i = self.record(&ctx, &p);
        if self.builtin[i] { return Ok(ExecutionSpawnResult::Completed(self.result_of(i))); }
        Ok(ExecutionSpawnResult::StartedProcess(Child))
    }
    fn redirect(&mut self) -> Result<(), error::Error> { Ok(()) }
    fn result_of(&self, i: usize) -> ExecutionResult {
        let mut r = ExecutionResult::new(self.code[i]);
        r.next_control_flow = match self.flow[i] { 1 => crate::ExecutionControlFlow::ExitShell, 2 => crate::ExecutionControlFlow::ReturnFromFunctionOrScript, 3 => crate::ExecutionControlFlow::BreakLoop { levels: 0 }, _ => crate::ExecutionControlFlow::Normal };
        r
    }
    /// a compound command / function definition executed inline: when this returns the stage has run to completion
    fn run_inline(&mut self, ctx: &mut PipelineExecutionContext<'_>, p: &ExecutionParameters) -> Result<ExecutionResult, error::Error> {
        let i = self.record(ctx, p);
        self.t += 1; self.completed_inline_at[i] = self.t;
        Ok(self.result_of(i))
    }
}

fn t_cmd_in_pipeline(this: &ast::Command, mut pipeline_context: PipelineExecutionContext<'_>, mut params: ExecutionParameters, __o: &mut WOracle) -> Result<ExecutionSpawnResult, error::Error> {
/*@LIFT cmd_in_pipeline*/
}
/// the rule deciding which stage runs in the current shell (a helper of the spawn and wait loops since the repair of D30)
fn runs_in_current_shell(pipeline_len: usize, index: usize, shell: &Shell) -> bool {
/*@LIFT runs_in_current*/
}
fn t_spawn(pipeline: &ast::Pipeline, shell: &mut Shell, params: &ExecutionParameters, __o: &mut WOracle) -> Result<VecDeque<ExecutionSpawnResult>, error::Error> {
/*@LIFT spawn*/
}

fn simple() -> ast::Command { ast::Command::Simple(ast::SimpleCommand { prefix: None, word_or_name: None, suffix: None }) }
fn compound() -> ast::Command { ast::Command::Compound(ast::CompoundCommand::BraceGroup(ast::BraceGroupCommand { list: ast::CompoundList(Vec::new()), loc: Default::default() }), None) }

fn wiring(n: usize, allow_inline_writer: bool) {
    let kinds: [bool; 4] = [kani::any(), kani::any(), kani::any(), kani::any()];     // true = compound stage
    if !allow_inline_writer {
        // KNOWN FINDING D15 region: a compound (or function) stage in a non-final position
        let mut i = 0; while i + 1 < n { kani::assume(!kinds[i]); i += 1; }
    }
    let mut seq = Vec::with_capacity(4);
    let mut i = 0; while i < n { seq.push(if kinds[i] { compound() } else { simple() }); i += 1; }
    let p = ast::Pipeline { timed: None, bang: false, seq };
    let mut shell = Shell { opts: Opts { run_last_pipeline_cmd_in_current_shell: kani::any(), enable_job_control: kani::any(), do_not_execute_commands: false }, clones: 0 };
    let params = ExecutionParameters::default();
    let mut o = WOracle::new();
    o.code = kani::any(); o.flow = kani::any(); o.builtin = kani::any();
    kani::assume(o.flow[0] < 4 && o.flow[1] < 4 && o.flow[2] < 4 && o.flow[3] < 4);
    let r = vk_ok(t_spawn(&p, &mut shell, &params, &mut o));
    let lastpipe = shell.opts.run_last_pipeline_cmd_in_current_shell && !shell.opts.enable_job_control;
    kani::cover!(lastpipe, "last_stage_in_parent_shell");
    kani::cover!(kinds[n - 1], "compound_last_stage");
    assert!(o.stages == n && o.pipes as usize == n - 1 && r.len() == n, "C11.wiring.n_stages_n_minus_1_pipes");
    // the first stage keeps the caller's stdin, the last the caller's stdout
    assert!(o.ins[0].is_none() && o.outs[n - 1].is_none(), "C11.wiring.ends_keep_callers_descriptors");
    let mut k = 0;
    while k + 1 < n {
        // stage k writes into the pipe stage k+1 reads from; ends have the right direction; every pipe is used by exactly one writer and one reader
        let (w, rd) = (o.outs[k], o.ins[k + 1]);
        assert!(matches!((w, rd), (Some(a), Some(b)) if a.write && !b.write && a.pipe == b.pipe), "C11.wiring.stage_k_stdout_is_stage_k_plus_1_stdin");
        let mut j = 0;
        while j + 1 < n { if j != k { assert!(o.outs[j].map(|e| e.pipe) != w.map(|e| e.pipe), "C11.wiring.each_pipe_has_one_writer"); } j += 1; }
        // only the last stage may run in the parent shell
        assert!(!o.in_parent[k], "C11.wiring.non_final_stages_run_in_their_own_shell");
        // start-before-wait: a stage that writes into a pipe must not be run to completion before its reader has been started
        assert!(o.completed_inline_at[k] == 0, "C11.wiring.writer_not_run_to_completion_before_reader_starts");
        k += 1;
    }
    assert!(o.in_parent[n - 1] == lastpipe, "C11.wiring.last_stage_in_parent_only_under_lastpipe_without_job_control");
    // stages after the first join the process group of the pipeline
    let mut k = 1; while k < n { if !o.in_parent[k] { assert!(o.same_pg[k], "C11.wiring.later_stages_same_process_group"); } k += 1; }
    std::mem::forget(r); std::mem::forget(p);
}

//@proof {'props': ['C11'], 'tier': 'quick', 'timeout': 900, 'uses': ['spawn', 'cmd_in_pipeline', 'runs_in_current'], 'known': 'D15', 'bounds': '3 stages, each simple or compound (symbolic), lastpipe / job-control options symbolic', 'desc': 'FULL wiring + start-before-wait contract, expected to fail on the recorded finding D15 (a compound stage in a non-final position is run to completion inside the spawn loop, before its reader exists)'}
#[kani::proof]
#[kani::unwind(6)]
fn vk_c11_wiring_3_full() { wiring(3, true); }

//@proof {'props': ['C11'], 'tier': 'quick', 'timeout': 900, 'uses': ['spawn', 'cmd_in_pipeline', 'runs_in_current'], 'bounds': '3 stages; non-final stages simple (D15 region assumed away), last stage simple or compound; options symbolic', 'desc': 'pipeline wiring: N-1 pipes, stage k stdout -> stage k+1 stdin, one writer and one reader per pipe, first/last keep the caller\'s descriptors, only the last stage may run in the parent shell and only under lastpipe without job control'}
#[kani::proof]
#[kani::unwind(6)]
fn vk_c11_wiring_3_modulo_known() { wiring(3, false); }

//@proof {'props': ['C11'], 'tier': 'quick', 'timeout': 900, 'uses': ['spawn', 'cmd_in_pipeline', 'runs_in_current'], 'bounds': '2 stages (D15 region assumed away)', 'desc': 'pipeline wiring, 2 stages'}
#[kani::proof]
#[kani::unwind(6)]
fn vk_c11_wiring_2_modulo_known() { wiring(2, false); }

//@proof {'props': ['C11'], 'tier': 'thorough', 'timeout': 1500, 'uses': ['spawn', 'cmd_in_pipeline', 'runs_in_current'], 'bounds': '4 stages (D15 region assumed away)', 'desc': 'pipeline wiring, 4 stages'}
#[kani::proof]
#[kani::unwind(7)]
fn vk_c11_wiring_4_modulo_known() { wiring(4, false); }
