/*@meta
{
 'package': 'brush-core',
 'host': 'brush-core/src/jobs.rs',
 'stubs': ['tracing -> no-op stub crate', 'crate::error::Error -> light struct inside the harness module (the real type only contributes drop glue)',
           'JobTask::wait().await (tokio join handle / child process wait) -> oracle: answers Completed, or Stopped at a symbolic point; records which task was awaited',
           'JobTask::poll() -> oracle: finished / still running per task from a symbolic table',
           'Job / JobManager data are duck-typed inside the harness module (a task is a token, the task deque an array of <= 2 tokens); every statement of wait_all, Job::wait, sweep_completed_jobs, poll, poll_done and add_as_current is the repository\'s text'],
 'assumptions': ['<= 3 jobs, <= 2 tasks per job (concrete shapes listed per harness)', 'at most one task per scenario ends with an error'],
 'out_of_claim': ['that awaiting a task means its effects are visible (tokio / kernel happens-before)', 'output ordering of background jobs',
                  'the wait/jobs/fg/bg builtins and `wait` with arguments', 'job tables with more than 3 live jobs / histories longer than the listed scripts'],
}
@*/
/*@recipes
{
 'job_wait': {'file': 'brush-core/src/jobs.rs', 'start': r'pub async fn wait\(&mut self\) -> Result<ExecutionResult, error::Error>', 'mode': 'fn_body', 'self_to': 'this', 'deasync': True,
              'rewrites': [[r'task\.wait\(\)', r'__o.wait_task(task)', 1]]},
 'wait_all': {'file': 'brush-core/src/jobs.rs', 'start': r'pub async fn wait_all\(&mut self\)', 'mode': 'fn_body', 'self_to': 'this', 'deasync': True,
              'rewrites': [[r'(\w+)\.wait\(\)', r't_job_wait(\1, __o)', 1], [r'this\.sweep_completed_jobs\(\)', r't_sweep(this)', 1]]},
 'sweep': {'file': 'brush-core/src/jobs.rs', 'start': r'fn sweep_completed_jobs\(&mut self\)', 'mode': 'fn_body', 'self_to': 'this'},
 'poll': {'file': 'brush-core/src/jobs.rs', 'start': r'pub fn poll\(&mut self\) -> Result<Vec<JobResult>, error::Error>', 'mode': 'fn_body', 'self_to': 'this',
          'rewrites': [[r'this\.jobs\[i\]\.poll_done\(\)', r't_poll_done(&mut this.jobs[i], __o)', 1]]},
 'poll_done': {'file': 'brush-core/src/jobs.rs', 'start': r'pub fn poll_done\(\s*&mut self,?\s*\)', 'mode': 'fn_body', 'self_to': 'this',
          'rewrites': [[r'task\.poll\(\)', r'__o.poll_task(task)', 1]]},
 'add': {'file': 'brush-core/src/jobs.rs', 'start': r'pub fn add_as_current\(&mut self, mut job: Job\) -> &Job', 'mode': 'fn_body', 'self_to': 'this'},
}
@*/
use super::*;
use crate::vk_prelude::*;

/// shadows `crate::error` inside this module: the lifted text only names `error::Error` in result types and moves such values
/// around; the real type's drop glue (strings, paths, io::Error, boxed sources) is what made the poll transplants exceed 10 GB.
pub mod error { pub struct Error(pub u8); }

// ---------------------------------------------------------------- array-backed stand-in for Vec (shadows the prelude name inside this module)
// `Vec::remove` is a memmove with a symbolic length for CBMC (measured: 14 GB); see vk_prelude::ArrVec.
use crate::vk_prelude::ArrVec as Vec;
macro_rules! vec { () => { Vec::new() }; }

// ---------------------------------------------------------------- duck-typed job table
#[derive(Clone, Copy)]
pub struct Task { pub id: u8 }
pub struct Tasks { pub arr: [Task; 2], pub n: usize }
impl Tasks {
    pub fn back_mut(&mut self) -> Option<&mut Task> { if self.n == 2 { Some(&mut self.arr[1]) } else if self.n == 1 { Some(&mut self.arr[0]) } else { None } }
    pub fn pop_back(&mut self) -> Option<Task> { if self.n > 0 { self.n -= 1; Some(self.arr[self.n]) } else { None } }
    pub fn pop_front(&mut self) -> Option<Task> { if self.n > 0 { Some(self.remove(0)) } else { None } }
    pub fn front_mut(&mut self) -> Option<&mut Task> { if self.n > 0 { Some(&mut self.arr[0]) } else { None } }
    pub fn is_empty(&self) -> bool { self.n == 0 }
    pub fn len(&self) -> usize { self.n }
    pub fn remove(&mut self, i: usize) -> Task { assert!(i < self.n); let t = self.arr[i]; if i == 0 { self.arr[0] = self.arr[1]; } self.n -= 1; t }
    pub fn iter_mut(&mut self) -> impl Iterator<Item = &mut Task> { let n = self.n; self.arr.iter_mut().take(n) }
}
impl std::ops::Index<usize> for Tasks { type Output = Task; fn index(&self, i: usize) -> &Task { assert!(i < self.n); &self.arr[i] } }
impl std::ops::IndexMut<usize> for Tasks { fn index_mut(&mut self, i: usize) -> &mut Task { assert!(i < self.n); &mut self.arr[i] } }
pub struct Job { pub tasks: Tasks, pub state: JobState, pub id: usize, pub annotation: JobAnnotation, pub tag: u8 }
impl Job {
    /// job `tag` (0..3) with `n` tasks whose ids are tag*2 and tag*2+1
    pub fn mk(tag: u8, n: usize, id: usize) -> Self {
        Job { tasks: Tasks { arr: [Task { id: tag * 2 }, Task { id: tag * 2 + 1 }], n }, state: if n == 0 { JobState::Done } else { JobState::Running }, id, annotation: JobAnnotation::None, tag }
    }
}
pub struct Mgr { pub jobs: Vec<Job> }

/// tiny stand-in for the error a finished task may carry (the lifted text only moves it around)
pub struct E0;
pub struct Oracle {
    pub stop_at: u8,            // the k-th task wait (1-based) reports "stopped"; 0 = never
    pub fail_at: u8,            // the k-th task wait (1-based) finds that the task ended with an error; 0 = never
    pub waits: u8,
    pub awaited: [u8; 12],       // per task id: number of completed waits
    pub finished: [bool; 12],    // poll answers per task id
    pub polls: u8,
}
impl Oracle {
    pub fn new() -> Self { Oracle { stop_at: 0, fail_at: 0, waits: 0, awaited: [0; 12], finished: [false; 12], polls: 0 } }
    fn wait_task(&mut self, t: &mut Task) -> Result<JobTaskWaitResult, error::Error> {
        self.waits += 1;
        if self.waits == self.stop_at { return Ok(JobTaskWaitResult::Stopped); }
        let i = t.id as usize; kani::assume(i < 12);
        self.awaited[i] += 1;
        // a task that ended in a fatal error has ended: its join handle must never be awaited again (tokio panics)
        if self.waits == self.fail_at { return Err(error::Error(1)); }
        Ok(JobTaskWaitResult::Completed(ExecutionResult::success()))
    }
    fn poll_task(&mut self, t: &mut Task) -> Option<Result<ExecutionResult, error::Error>> {
        self.polls += 1;
        let i = t.id as usize; kani::assume(i < 12);
        if self.finished[i] { Some(Ok(ExecutionResult::success())) } else { None }
    }
}

// ---------------------------------------------------------------- transplanted bodies (the repository's statements)
fn t_job_wait(this: &mut Job, __o: &mut Oracle) -> Result<ExecutionResult, error::Error> {
/*@LIFT job_wait*/
}
fn t_sweep(this: &mut Mgr) -> Vec<Job> {
/*@LIFT sweep*/
}
fn t_wait_all(this: &mut Mgr, __o: &mut Oracle) -> Result<Vec<Job>, error::Error> {
/*@LIFT wait_all*/
}
fn t_poll_done(this: &mut Job, __o: &mut Oracle) -> Result<Option<Result<ExecutionResult, error::Error>>, error::Error> {
/*@LIFT poll_done*/
}
fn t_poll(this: &mut Mgr, __o: &mut Oracle) -> Result<Vec<(Job, Result<ExecutionResult, error::Error>)>, error::Error> {
/*@LIFT poll*/
}
fn t_add<'a>(this: &'a mut Mgr, mut job: Job) -> &'a Job {
/*@LIFT add*/
}

// ---------------------------------------------------------------- wait_all protocol
/// table of up to three jobs with the given task counts (a count of 0 = a job already waited for individually, state Done)
fn wait_all_shape(counts: [usize; 3], njobs: usize) {
    let mut jobs = Vec::with_capacity(4);
    let mut total = 0u8;
    let mut k = 0;
    while k < njobs { jobs.push(Job::mk(k as u8, counts[k], k + 1)); total += counts[k] as u8; k += 1; }
    let mut mgr = Mgr { jobs };
    let mut o = Oracle::new();
    o.stop_at = kani::any();
    kani::assume(o.stop_at <= total + 1);
    let done = vk_ok(t_wait_all(&mut mgr, &mut o));
    let stopped = o.stop_at >= 1 && o.stop_at <= total;
    kani::cover!(!stopped, "all_complete");
    kani::cover!(stopped, "one_task_stops");
    if !stopped {
        // returned only after every task of every job was awaited to completion, each exactly once
        assert!(o.waits == total, "C17.wait_all.every_task_awaited");
        let mut j = 0;
        while j < njobs {
            let c = counts[j];
            assert!(o.awaited[j * 2] == if c >= 1 { 1 } else { 0 }, "C17.wait_all.task_awaited_exactly_once");
            assert!(o.awaited[j * 2 + 1] == if c >= 2 { 1 } else { 0 }, "C17.wait_all.task_awaited_exactly_once");
            j += 1;
        }
        // every job is reported exactly once, in table order, and removed
        assert!(mgr.jobs.len() == 0, "C17.wait_all.table_empty_afterwards");
        assert!(done.len() == njobs, "C17.wait_all.every_job_reported_once");
        let mut j = 0;
        while j < njobs { assert!(done[j].tag == j as u8 && matches!(done[j].state, JobState::Done), "C17.wait_all.reported_in_order_done"); j += 1; }
    } else {
        // exactly one job keeps a task and stays in the table, marked stopped; nothing is lost or duplicated
        assert!(done.len() + mgr.jobs.len() == njobs, "C17.wait_all.no_job_lost_or_duplicated");
        assert!(mgr.jobs.len() == 1 && matches!(mgr.jobs[0].state, JobState::Stopped) && !mgr.jobs[0].tasks.is_empty(), "C17.wait_all.stopped_job_kept");
        // every other job was still awaited to completion
        assert!(o.waits >= total - 1 || counts[mgr.jobs[0].tag as usize] == 2, "C17.wait_all.other_jobs_still_awaited");
        let sj = mgr.jobs[0].tag as usize;
        let mut j = 0;
        while j < njobs {
            if j != sj {
                assert!(o.awaited[j * 2] == if counts[j] >= 1 { 1 } else { 0 } && o.awaited[j * 2 + 1] == if counts[j] >= 2 { 1 } else { 0 }, "C17.wait_all.other_jobs_still_awaited");
            }
            j += 1;
        }
    }
    std::mem::forget(done); std::mem::forget(mgr);
}

/// a background job may end with a fatal error (e.g. `{ : ${nope?bad}; } &`): the error comes out of the task's wait
fn wait_all_with_a_failing_task(counts: [usize; 3], njobs: usize) {
    let mut jobs = Vec::with_capacity(4);
    let mut total = 0u8;
    let mut k = 0;
    while k < njobs { jobs.push(Job::mk(k as u8, counts[k], k + 1)); total += counts[k] as u8; k += 1; }
    let mut mgr = Mgr { jobs };
    let mut o = Oracle::new();
    o.fail_at = kani::any();
    kani::assume(o.fail_at >= 1 && o.fail_at <= total);
    let first = t_wait_all(&mut mgr, &mut o);
    kani::cover!(o.fail_at == 1 && total >= 2, "first_awaited_task_failed");
    assert!(first.is_err(), "C17.wait_all.failure_of_a_job_is_reported");
    // `wait` still waits: every task of every job was awaited, once
    let mut j = 0;
    while j < njobs {
        assert!(o.awaited[j * 2] == if counts[j] >= 1 { 1 } else { 0 } && o.awaited[j * 2 + 1] == if counts[j] >= 2 { 1 } else { 0 }, "C17.wait_all.every_task_awaited_even_after_a_job_failed");
        j += 1;
    }
    // a later `wait` finds nothing left to wait for and never touches a finished task again
    let second = t_wait_all(&mut mgr, &mut o);
    let mut i = 0;
    while i < 6 { assert!(o.awaited[i] <= 1, "C17.wait_all.finished_task_never_awaited_again"); i += 1; }
    assert!(second.is_ok() && mgr.jobs.len() == 0, "C17.wait_all.second_wait_is_clean");
    std::mem::forget(first); std::mem::forget(second); std::mem::forget(mgr);
}

//@proof {'props': ['C17', 'C01'], 'tier': 'quick', 'timeout': 900, 'uses': ['job_wait', 'wait_all', 'sweep'], 'bounds': '3 jobs with 1 + 2 + 1 tasks; one task (symbolic which) ends with a fatal error; `wait` is called twice', 'desc': 'a failing background job does not cut `wait` short: every task of every job is still awaited exactly once and the failure is reported; a second `wait` never awaits a finished task again (tokio panics on a join handle polled after completion)'}
#[kani::proof]
#[kani::unwind(9)]
fn vk_c17_wait_all_with_a_failing_job() { wait_all_with_a_failing_task([1, 2, 1], 3); }

//@proof {'props': ['C17'], 'tier': 'quick', 'timeout': 900, 'uses': ['job_wait', 'wait_all', 'sweep'], 'bounds': '2 jobs with 2 + 1 tasks; the point at which a task reports "stopped" is symbolic (or never)', 'desc': 'wait_all returns only after every task of every job was awaited to completion, exactly once; finished jobs reported once in order and removed; a stopped job stays'}
#[kani::proof]
#[kani::unwind(6)]
fn vk_c17_wait_all_2_1() { wait_all_shape([2, 1, 0], 2); }

//@proof {'props': ['C17'], 'tier': 'quick', 'timeout': 900, 'uses': ['job_wait', 'wait_all', 'sweep'], 'bounds': '3 jobs with 1 + 0 + 1 tasks: the middle job was already waited for individually (`wait %2`: state Done, no tasks)', 'desc': 'wait_all after an individual `wait %N`: jobs behind an already-finished entry are still awaited'}
#[kani::proof]
#[kani::unwind(6)]
fn vk_c17_wait_all_1_0_1() { wait_all_shape([1, 0, 1], 3); }

//@proof {'props': ['C17'], 'tier': 'quick', 'timeout': 900, 'uses': ['job_wait', 'wait_all', 'sweep'], 'bounds': '2 jobs with 0 + 2 tasks: the first job was already waited for individually', 'desc': 'wait_all with an already-finished first entry'}
#[kani::proof]
#[kani::unwind(6)]
fn vk_c17_wait_all_0_2() { wait_all_shape([0, 2, 0], 2); }

//@proof {'props': ['C17'], 'tier': 'thorough', 'timeout': 1200, 'uses': ['job_wait', 'wait_all', 'sweep'], 'bounds': '3 jobs with 2 + 1 + 2 tasks', 'desc': 'wait_all on three jobs'}
#[kani::proof]
#[kani::unwind(6)]
fn vk_c17_wait_all_2_1_2() { wait_all_shape([2, 1, 2], 3); }

// ---------------------------------------------------------------- completion poll
//@proof {'props': ['C17'], 'tier': 'quick', 'timeout': 900, 'uses': ['poll', 'poll_done'], 'bounds': '3 jobs with 1 task each (ids 2, 5, 3), which tasks have finished is symbolic', 'desc': 'poll: exactly the jobs whose tasks have all finished are removed and reported, once each; the others stay with their ids; none lost or duplicated'}
#[kani::proof]
#[kani::unwind(6)]
fn vk_c17_poll_3() {
    let ids: [usize; 3] = [2, 5, 3];
    let mut jobs = Vec::with_capacity(4);
    jobs.push(Job::mk(0, 1, ids[0])); jobs.push(Job::mk(1, 1, ids[1])); jobs.push(Job::mk(2, 1, ids[2]));
    let mut mgr = Mgr { jobs };
    let mut o = Oracle::new();
    let fin: [bool; 3] = [kani::any(), kani::any(), kani::any()];
    o.finished[0] = fin[0]; o.finished[2] = fin[1]; o.finished[4] = fin[2];
    let res = vk_ok(t_poll(&mut mgr, &mut o));
    let nfin = fin[0] as usize + fin[1] as usize + fin[2] as usize;
    kani::cover!(fin[0] && !fin[1] && !fin[2], "first_job_finishes_others_live");
    kani::cover!(nfin == 3, "all_finish");
    assert!(o.polls == 3, "C17.poll.every_job_polled_once");
    assert!(res.len() == nfin, "C17.poll.reported_count");
    assert!(mgr.jobs.len() == 3 - nfin, "C17.poll.live_count");
    // each original job is in exactly one of the two lists, according to its finished flag, with its id intact
    let mut t = 0;
    while t < 3 {
        let mut in_table = 0; let mut in_res = 0;
        let mut i = 0; while i < mgr.jobs.len() { if mgr.jobs[i].tag == t as u8 { in_table += 1; assert!(mgr.jobs[i].id == ids[t], "C17.poll.live_job_keeps_id"); } i += 1; }
        let mut i = 0; while i < res.len() { if res[i].0.tag == t as u8 { in_res += 1; } i += 1; }
        assert!(in_res == if fin[t] { 1 } else { 0 } && in_table == if fin[t] { 0 } else { 1 }, "C17.poll.finished_reported_once_live_kept_once");
        t += 1;
    }
    std::mem::forget(res); std::mem::forget(mgr);
}

// ---------------------------------------------------------------- histories from the empty table (no invariant assumed)
fn distinct(m: &Mgr) -> bool {
    let n = m.jobs.len();
    let mut i = 0;
    while i < n { let mut j = i + 1; while j < n { if m.jobs[i].id == m.jobs[j].id { return false; } j += 1; } if m.jobs[i].id == 0 { return false; } i += 1; }
    true
}
//@proof {'props': ['C17'], 'tier': 'quick', 'timeout': 1200, 'uses': ['poll', 'poll_done', 'add'], 'bounds': 'history: add, add, add, poll (symbolic completions), add - from the empty table', 'desc': 'every table reachable by this history has pairwise distinct non-zero job numbers and exactly one current job (the newest)'}
#[kani::proof]
#[kani::unwind(7)]
fn vk_c17_history_ids() {
    let mut mgr = Mgr { jobs: Vec::with_capacity(8) };
    let mut o = Oracle::new();
    t_add(&mut mgr, Job::mk(0, 1, 0)); t_add(&mut mgr, Job::mk(1, 1, 0)); t_add(&mut mgr, Job::mk(2, 1, 0));
    assert!(distinct(&mgr), "C17.history.distinct_after_three_adds");
    o.finished[0] = kani::any(); o.finished[2] = kani::any(); o.finished[4] = kani::any();
    let r1 = vk_ok(t_poll(&mut mgr, &mut o));
    let n1 = mgr.jobs.len();
    let new_id = t_add(&mut mgr, Job::mk(3, 1, 0)).id;
    kani::cover!(n1 == 2 && o.finished[0], "hole_at_front_then_add");
    kani::cover!(n1 == 2 && o.finished[2], "hole_in_middle_then_add");
    assert!(distinct(&mgr), "C17.history.live_ids_distinct_after_reap_and_add");
    assert!(mgr.jobs.len() == n1 + 1, "C17.history.add_appends_one");
    // exactly one Current: the job just added
    let mut cur = 0; let mut i = 0;
    while i < mgr.jobs.len() { if matches!(mgr.jobs[i].annotation, JobAnnotation::Current) { cur += 1; assert!(mgr.jobs[i].id == new_id, "C17.history.current_is_newest"); } i += 1; }
    assert!(cur == 1, "C17.history.exactly_one_current");
    std::mem::forget(r1); std::mem::forget(mgr);
}

//@proof {'props': ['C17'], 'tier': 'quick', 'timeout': 1200, 'uses': ['job_wait', 'add'], 'bounds': 'history: add, add, add, `wait %k` on one job (symbolic which; the entry stays in the table, marked done, until the next plain `wait`), add - from the empty table', 'desc': 'an entry that was waited for individually still owns its job number: every entry of the table, finished or not, has a distinct non-zero number after the next launch (`%n` resolves to one job)'}
#[kani::proof]
#[kani::unwind(7)]
fn vk_c17_history_ids_after_individual_wait() {
    let mut mgr = Mgr { jobs: Vec::with_capacity(8) };
    let mut o = Oracle::new();
    t_add(&mut mgr, Job::mk(0, 1, 0)); t_add(&mut mgr, Job::mk(1, 1, 0)); t_add(&mut mgr, Job::mk(2, 1, 0));
    let k: usize = kani::any(); kani::assume(k < 3);
    let r = t_job_wait(&mut mgr.jobs[k], &mut o);
    assert!(matches!(mgr.jobs[k].state, JobState::Done) && mgr.jobs.len() == 3, "C17.history.individually_awaited_entry_stays_until_the_sweep");
    let new_id = t_add(&mut mgr, Job::mk(3, 1, 0)).id;
    kani::cover!(k == 2, "newest_job_was_awaited");
    assert!(new_id != 0 && distinct(&mgr), "C17.history.job_numbers_distinct_with_a_finished_entry_in_the_table");
    std::mem::forget(r); std::mem::forget(mgr);
}

//@proof {'props': ['C17'], 'tier': 'thorough', 'timeout': 2400, 'uses': ['poll', 'poll_done', 'add'], 'bounds': 'history: add, add, add, poll (symbolic completions), add, poll (symbolic completions), add - from the empty table', 'desc': 'longer history: live job numbers stay pairwise distinct through two rounds of reaping and launching'}
#[kani::proof]
#[kani::unwind(8)]
fn vk_c17_history_ids_long() {
    let mut mgr = Mgr { jobs: Vec::with_capacity(8) };
    let mut o = Oracle::new();
    t_add(&mut mgr, Job::mk(0, 1, 0)); t_add(&mut mgr, Job::mk(1, 1, 0)); t_add(&mut mgr, Job::mk(2, 1, 0));
    o.finished[0] = kani::any(); o.finished[2] = kani::any(); o.finished[4] = kani::any();
    let r1 = vk_ok(t_poll(&mut mgr, &mut o));
    t_add(&mut mgr, Job::mk(3, 1, 0));
    assert!(distinct(&mgr), "C17.history.live_ids_distinct_after_first_round");
    o.finished[0] = kani::any(); o.finished[2] = kani::any(); o.finished[4] = kani::any(); o.finished[6] = kani::any();
    let r2 = vk_ok(t_poll(&mut mgr, &mut o));
    let n2 = mgr.jobs.len();
    kani::assume(n2 <= 3);
    t_add(&mut mgr, Job::mk(4, 1, 0));
    kani::cover!(n2 == 2, "two_survivors_before_last_add");
    assert!(distinct(&mgr), "C17.history.live_ids_distinct_after_second_round");
    assert!(mgr.jobs.len() == n2 + 1, "C17.history.add_appends_one");
    std::mem::forget(r1); std::mem::forget(r2); std::mem::forget(mgr);
}
