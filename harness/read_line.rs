/*@meta
{
 'package': 'brush-builtins',
 'host': 'brush-builtins/src/read.rs',
 'stubs': ['transplant of read_line_with_reader (the per-character loop of the `read` builtin) over a duck-typed input: read_event() -> the next of up to 4 symbolic events (a character - any `char` -, end of file, timeout, ^C, ^D), counting how many were consumed; the names `String`, `ReadResult`, `InputReader`, `LineReaderConfig`, `InputEvent` inside the harness module are light stand-ins (the line is a 4-slot buffer of chars)'],
 'assumptions': ['<= 4 input events per call; delimiter any char or none (-N); -r on or off; character limit none or 1..4'],
 'out_of_claim': ['how bytes become events (terminal modes, UTF-8 decoding, timeouts: InputReader)', 'field splitting and assignment of the line read', 'lines longer than 4 characters'],
}
@*/
/*@recipes
{
 'read_loop': {'file': 'brush-builtins/src/read.rs', 'start': r'^fn read_line_with_reader\(', 'mode': 'fn_body'},
}
@*/
use super::BACKSLASH;

#[derive(Clone, Copy, PartialEq, Eq)]
pub struct String { pub c: [char; 4], pub n: usize }
impl String {
    pub fn new() -> Self { String { c: ['\0'; 4], n: 0 } }
    pub fn push(&mut self, ch: char) { kani::assume(self.n < 4); self.c[self.n] = ch; self.n += 1; }
    pub fn is_empty(&self) -> bool { self.n == 0 }
    /// the real limit test counts bytes of the output; characters here (documented difference: multi-byte text and -n is outside)
    pub fn len(&self) -> usize { self.n }
}
pub enum ReadResult { Line(String), Eof(Option<String>), Interrupted, TimedOut(Option<String>), InputReady, InputNotReady }
#[derive(Clone, Copy)]
pub enum InputEvent { Char(char), Eof, Timeout, CtrlC, CtrlD }
pub struct E(pub u8);
pub struct InputReader { pub ev: [InputEvent; 4], pub consumed: usize }
impl InputReader { pub fn read_event(&mut self) -> Result<InputEvent, E> { let i = self.consumed; self.consumed += 1; if i < 4 { Ok(self.ev[i]) } else { Ok(InputEvent::Eof) } } }
pub struct LineReaderConfig { pub delimiter: Option<char>, pub char_limit: Option<usize>, pub process_escapes: bool }

fn t_read_loop(reader: &mut InputReader, config: &LineReaderConfig) -> Result<ReadResult, E> {
/*@LIFT read_loop*/
}

fn any_event() -> InputEvent { match kani::any::<u8>() % 5 { 0 => InputEvent::Eof, 1 => InputEvent::Timeout, 2 => InputEvent::CtrlC, 3 => InputEvent::CtrlD, _ => InputEvent::Char(kani::any()) } }

//@proof {'props': ['C11'], 'tier': 'quick', 'timeout': 900, 'uses': ['read_loop'], 'bounds': '4 symbolic input events (any char / EOF / timeout / ^C / ^D); delimiter any char (NUL, control characters, multi-byte) or none; -r symbolic; no character limit', 'desc': '`read` consumes exactly one record: it returns at the first unescaped occurrence of the delimiter - whatever character the delimiter is, `read -d \'\'` (NUL) included - having consumed that event and nothing after it, so the next reader of a shared descriptor starts at the next record; with -r a backslash never hides a delimiter'}
#[kani::proof]
#[kani::unwind(7)]
fn vk_c11_read_stops_exactly_at_the_delimiter() {
    let ev = [any_event(), any_event(), any_event(), any_event()];
    let delim: char = kani::any();
    let escapes: bool = kani::any();
    let cfg = LineReaderConfig { delimiter: Some(delim), char_limit: None, process_escapes: escapes };
    let mut rd = InputReader { ev, consumed: 0 };
    let r = t_read_loop(&mut rd, &cfg);
    // reference: scan the events; a backslash (without -r) protects the next character
    let mut stop: usize = 5; let mut by_delim = false; let mut pending = false; let mut i = 0;
    while i < 4 {
        if stop == 5 {
            match ev[i] {
                InputEvent::Char(c) => {
                    if escapes && pending { pending = false; }
                    else if escapes && c == BACKSLASH { pending = true; }
                    else if c == delim { stop = i; by_delim = true; }
                }
                _ => { stop = i; }
            }
        }
        i += 1;
    }
    kani::cover!(by_delim && stop == 2 && delim == '\0', "nul_delimiter_after_two_characters");
    kani::cover!(by_delim && (delim as u32) < 32 && delim != '\n' && delim != '\t', "control_character_delimiter");
    kani::cover!(escapes && stop == 5, "no_terminator_within_four_events");
    if by_delim {
        assert!(rd.consumed == stop + 1, "C11.read.consumes_up_to_and_including_the_first_delimiter_only");
        assert!(matches!(&r, Ok(ReadResult::Line(_))), "C11.read.delimiter_ends_the_record_successfully");
    } else if stop < 5 {
        assert!(rd.consumed == stop + 1, "C11.read.stops_at_the_first_end_of_input_event");
    }
    std::mem::forget(r);
}
