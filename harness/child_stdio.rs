/*@meta
{
 'package': 'brush-core',
 'host': 'brush-core/src/commands.rs',
 'stubs': ['block lifts of the three `match context.try_fd(..)` statements of compose_std_command that wire an external command\'s standard streams, and of the body of `impl TryFrom<OpenFile> for Stdio` (openfiles.rs), over duck types: an OpenFile is its variant plus the identity of the open file it refers to; Stdio is {not set / inherit / null / a duplicate of identity i}; std::process::Command is a recorder of the three slots',
           'File / pipe `try_clone()` and OpenFile::try_clone_to_owned -> a duplicate with the same identity (dup(2) contract)'],
 'assumptions': ['std::process::Command: a slot that is not set, or set to Stdio::inherit(), gives the child the PROCESS\'s descriptor of the same number (0, 1, 2) - std contract', 'the process\'s descriptors 0, 1, 2 are the ones OpenFile::Stdin / Stdout / Stderr denote (brush never re-opens them)'],
 'out_of_claim': ['descriptors above 2 (inject_fds)', 'a descriptor that is closed in the shell (`<&-`): the child inherits the process\'s descriptor instead of finding it closed - noted, not asserted', 'custom streams (null)', 'builtins and functions (they write through the table directly)'],
}
@*/
/*@recipes
{
 'wire_stdin': {'file': 'brush-core/src/commands.rs', 'start': r'match context\.try_fd\(OpenFiles::STDIN_FD\) \{', 'mode': 'block'},
 'wire_stdout': {'file': 'brush-core/src/commands.rs', 'start': r'match context\.try_fd\(OpenFiles::STDOUT_FD\) \{', 'mode': 'block'},
 'wire_stderr': {'file': 'brush-core/src/commands.rs', 'start': r'match context\.try_fd\(OpenFiles::STDERR_FD\) \{', 'mode': 'block'},
 'to_stdio': {'file': 'brush-core/src/openfiles.rs', 'start': r'impl TryFrom<OpenFile> for Stdio \{\s*type Error = error::Error;\s*fn try_from\(open_file: OpenFile\) -> Result<Self, Self::Error>', 'mode': 'fn_body'},
}
@*/
pub mod error { pub struct Error(pub u8); }
/// identities: 0, 1, 2 = what the process has on descriptors 0, 1, 2; >= 10 = some other open file
#[derive(Clone, Copy)]
pub struct H(pub u8);
impl H { pub fn try_clone(&self) -> Result<H, error::Error> { Ok(*self) } }
#[derive(Clone, Copy)]
pub struct StdTok;
#[derive(Clone, Copy)]
pub enum OpenFile { Stdin(StdTok), Stdout(StdTok), Stderr(StdTok), File(H), PipeReader(H), PipeWriter(H), Stream(StdTok) }
pub struct Owned(pub u8);
impl OpenFile {
    pub fn identity(&self) -> Option<u8> { match self { OpenFile::Stdin(_) => Some(0), OpenFile::Stdout(_) => Some(1), OpenFile::Stderr(_) => Some(2), OpenFile::File(h) | OpenFile::PipeReader(h) | OpenFile::PipeWriter(h) => Some(h.0), OpenFile::Stream(_) => None } }
    /// dup(2): the duplicate refers to the same open file
    pub fn try_clone_to_owned(self) -> Result<Owned, error::Error> { match self.identity() { Some(i) => Ok(Owned(i)), None => Err(error::Error(1)) } }
}
#[derive(Clone, Copy, PartialEq, Eq)]
pub enum Stdio { Inherit, Null, Dup(u8) }
impl Stdio { pub fn inherit() -> Self { Stdio::Inherit } pub fn null() -> Self { Stdio::Null } }
impl From<H> for Stdio { fn from(h: H) -> Self { Stdio::Dup(h.0) } }
impl From<Owned> for Stdio { fn from(o: Owned) -> Self { Stdio::Dup(o.0) } }
impl TryFrom<OpenFile> for Stdio {
    type Error = error::Error;
    fn try_from(open_file: OpenFile) -> Result<Self, Self::Error> {
/*@LIFT to_stdio*/
    }
}
pub struct OpenFiles;
impl OpenFiles { pub const STDIN_FD: i32 = 0; pub const STDOUT_FD: i32 = 1; pub const STDERR_FD: i32 = 2; }
pub struct Ctx { pub fds: [Option<OpenFile>; 3] }
impl Ctx { pub fn try_fd(&self, fd: i32) -> Option<OpenFile> { if fd >= 0 && fd < 3 { self.fds[fd as usize] } else { None } } }
pub struct Cmd { pub slot: [Option<Stdio>; 3] }
impl Cmd {
    pub fn stdin(&mut self, s: Stdio) -> &mut Self { self.slot[0] = Some(s); self }
    pub fn stdout(&mut self, s: Stdio) -> &mut Self { self.slot[1] = Some(s); self }
    pub fn stderr(&mut self, s: Stdio) -> &mut Self { self.slot[2] = Some(s); self }
    /// std contract: what the child finds on descriptor k (255 = /dev/null)
    pub fn child_sees(&self, k: usize) -> u8 { match self.slot[k] { None | Some(Stdio::Inherit) => k as u8, Some(Stdio::Null) => 255, Some(Stdio::Dup(i)) => i } }
}

fn t_wire(context: &Ctx, cmd: &mut Cmd) -> Result<(), error::Error> {
    /*@LIFT wire_stdin*/
    /*@LIFT wire_stdout*/
    /*@LIFT wire_stderr*/
    Ok(())
}

fn any_file() -> Option<OpenFile> {
    let v: u8 = kani::any(); kani::assume(v < 7);
    let id: u8 = kani::any(); kani::assume(id >= 10 && id < 13);
    match v { 0 => None, 1 => Some(OpenFile::Stdin(StdTok)), 2 => Some(OpenFile::Stdout(StdTok)), 3 => Some(OpenFile::Stderr(StdTok)), 4 => Some(OpenFile::File(H(id))), 5 => Some(OpenFile::PipeReader(H(id))), _ => Some(OpenFile::PipeWriter(H(id))) }
}

//@proof {'props': ['C10'], 'tier': 'quick', 'timeout': 600, 'uses': ['wire_stdin', 'wire_stdout', 'wire_stderr', 'to_stdio'], 'bounds': 'the shell\'s descriptors 0, 1, 2 each independently: the process\'s own stdin / stdout / stderr (any of the three on any number, as after 2>&1 or 1>&2), a file, a pipe end, or closed', 'desc': 'an external command finds on each of its descriptors 0, 1, 2 the same open file the shell has there: after `cmd 2>&1` the child\'s stderr IS the shell\'s stdout even when that is the process\'s original stdout (Stdio::inherit() would hand it the original stderr)'}
#[kani::proof]
#[kani::unwind(4)]
fn vk_c10_external_command_standard_streams() {
    let ctx = Ctx { fds: [any_file(), any_file(), any_file()] };
    let mut cmd = Cmd { slot: [None; 3] };
    let r = t_wire(&ctx, &mut cmd);
    kani::cover!(matches!(ctx.fds[2], Some(OpenFile::Stdout(_))) && matches!(ctx.fds[1], Some(OpenFile::Stdout(_))), "stderr_duplicated_from_the_original_stdout");
    kani::cover!(matches!(ctx.fds[0], Some(OpenFile::PipeReader(_))), "stdin_from_a_pipe");
    assert!(r.is_ok(), "C10.child.wiring_does_not_fail_when_duplication_succeeds");
    let mut k = 0;
    while k < 3 {
        if let Some(f) = ctx.fds[k] { if let Some(id) = f.identity() { assert!(cmd.child_sees(k) == id, "C10.child.descriptor_refers_to_the_file_the_shell_has_there"); } }
        k += 1;
    }
    std::mem::forget(r);
}
