/*@meta
{
 'package': 'brush-parser',
 'host': 'brush-parser/src/arithmetic.rs',
 'stubs': ['the action blocks of the hex, octal and decimal alternatives of the PEG rule literal_number / decimal_literal lifted as text; the matched digit text `s` is a duck-typed stand-in that carries its mathematical value (symbolic, < 2^72: up to 18 hex digits) and whether it contains a digit that its radix does not have',
           'the conversions the actions may call are oracles with the contract of the real functions: `i64::from_str_radix` / `s.parse::<u64>()` (std: Ok iff the value fits the type) and `parse_shell_literal_number` (wrapping accumulation, decided for its loop body by vk_c07_radix_literal_*: value mod 2^64; a digit >= radix is an error)',
           'the name `i64` inside the harness module is a module holding the std oracle (type-relative paths resolve to it first)'],
 'assumptions': ['the digit text is what the grammar matched: hex digits after 0x (possibly none), 0 followed by digits 0..8 for octal, a non-zero digit followed by digits for decimal'],
 'out_of_claim': ['recognition of the literal by the PEG machinery', 'literals whose value is 2^72 or more (same code path; the stand-in value is 128-bit)'],
}
@*/
/*@recipes
{
 'hex': {'file': 'brush-parser/src/arithmetic.rs', 'start': r'"0" \[\'x\' \| \'X\'\] s:\$\(\[[^\]]*\]\*\) ', 'mode': 'fn_body', 'peg_action': True},
 'octal': {'file': 'brush-parser/src/arithmetic.rs', 'start': r's:\$\("0" \[[^\]]*\]\*\) ', 'mode': 'fn_body', 'peg_action': True},
 'decimal': {'file': 'brush-parser/src/arithmetic.rs', 'start': r'rule decimal_literal\(\) -> i64 =\s*s:\$\(\[[^\]]*\] \[[^\]]*\]\*\) ', 'mode': 'fn_body', 'peg_action': True},
}
@*/
type I64 = core::primitive::i64;
type U64 = core::primitive::u64;

/// the matched digits: mathematical value, "contains a digit its radix does not have" (octal text may contain 8), "no digits" (0x)
#[derive(Clone, Copy)]
pub struct Digits { pub v: u128, pub bad_digit: bool, pub empty: bool }
#[derive(Debug)]
pub struct StdErr;
pub trait FromMath: Sized { fn fit(v: u128) -> Option<Self>; }
impl FromMath for U64 { fn fit(v: u128) -> Option<Self> { if v <= U64::MAX as u128 { Some(v as U64) } else { None } } }
impl FromMath for I64 { fn fit(v: u128) -> Option<Self> { if v <= I64::MAX as u128 { Some(v as I64) } else { None } } }
impl Digits {
    /// std: decimal parse succeeds iff the value fits
    pub fn parse<T: FromMath>(&self) -> Result<T, StdErr> { if self.empty || self.bad_digit { return Err(StdErr); } T::fit(self.v).ok_or(StdErr) }
}
/// std contract of from_str_radix: Ok iff non-empty, every digit below the radix, and the value fits
pub mod i64 { pub fn from_str_radix(s: super::Digits, _radix: u32) -> Result<super::I64, super::StdErr> { s.parse::<super::I64>() } }
/// contract of parse_shell_literal_number for a radix in 2..=64: wrapping accumulation = value mod 2^64; a digit >= radix is an error
fn parse_shell_literal_number(s: Digits, _radix: U64) -> Result<I64, &'static str> {
    if s.bad_digit { return Err("value too great for base"); }
    Ok((s.v as U64) as I64)
}
fn wrap(v: u128) -> I64 { (v as U64) as I64 }

fn k_hex(s: Digits) -> Result<I64, &'static str> {
    { /*@LIFT hex*/ }
}
fn k_octal(s: Digits) -> Result<I64, &'static str> {
    { /*@LIFT octal*/ }
}
fn k_decimal(s: Digits) -> Result<I64, &'static str> {
    { /*@LIFT decimal*/ }
}
fn any_digits() -> Digits { let v: u128 = kani::any(); kani::assume(v < (1u128 << 72)); Digits { v, bad_digit: false, empty: false } }

//@proof {'props': ['C07', 'C01'], 'tier': 'quick', 'timeout': 300, 'uses': ['hex', 'octal', 'decimal'], 'bounds': 'hex, octal and decimal integer constants of any value below 2^72 (18 hex digits); octal text with or without a digit 8', 'desc': 'integer constants: the value is the digits\' value reduced modulo 2^64 and read as a signed 64-bit number, as in bash (0xFFFFFFFFFFFFFFFF is -1, 18446744073709551617 is 1); an octal constant containing 8 is an error; no panic'}
#[kani::proof]
#[kani::unwind(2)]
fn vk_c07_integer_constants_wrap() {
    let d = any_digits();
    let which: u8 = kani::any(); kani::assume(which < 3);
    kani::cover!(which == 0 && d.v == 0xFFFF_FFFF_FFFF_FFFF, "hex_all_ones");
    kani::cover!(which == 2 && d.v > U64::MAX as u128, "decimal_above_2_64");
    match which {
        0 => { let r = k_hex(d); assert!(r == Ok(wrap(d.v)), "C07.constant.hex_value_wraps_modulo_2_64"); }
        1 => {
            let mut o = d; o.bad_digit = kani::any();
            let r = k_octal(o);
            if o.bad_digit { assert!(r.is_err(), "C07.constant.octal_with_digit_8_is_an_error"); }
            else { assert!(r == Ok(wrap(d.v)), "C07.constant.octal_value_wraps_modulo_2_64"); }
        }
        _ => { kani::assume(d.v >= 1); let r = k_decimal(d); assert!(r == Ok(wrap(d.v)), "C07.constant.decimal_value_wraps_modulo_2_64"); }
    }
}
