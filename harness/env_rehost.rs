/*@meta
{
 'package': 'brush-core',
 'host': 'brush-core/src/env.rs',
 'stubs': ['tracing -> no-op stub crate',
           'module re-instantiation: the whole text of env.rs is compiled a second time inside the harness module with `std::collections::{HashMap, hash_map}` replaced by a 2-slot array map and `crate::variables` replaced by a light stand-in (a variable is (set?, readonly, exported, tag); assign / assign_at_index / unset_index fail iff readonly)',
           'EnvironmentScope / EnvironmentLookup are the real enums (re-exported into the re-instantiated module)'],
 'assumptions': ['the std HashMap contract is what the 2-slot map implements (<= 2 names per scope)', 'the contract of ShellVariable assumed by the stand-in is discharged separately on the re-instantiated variables.rs'],
 'out_of_claim': ['the real HashMap and the real ShellVariable representation', 'how declare / local / export / read / printf -v / getopts / mapfile call these APIs',
                  'temporary-assignment plumbing in execute_command', 'the environment handed to child processes', '-l / -u / -c value transformations'],
}
@*/
/*@recipes
{
 'env_file': {'file': 'brush-core/src/env.rs', 'mode': 'file',
        'rewrites': [[r'^//![^\n]*$', r'', 1],
                     [r'use std::collections::HashMap;\s*use std::collections::hash_map;', r'use super::mockhash::{HashMap, hash_map};', 1],
                     [r'use crate::variables::\{self, ShellValue, ShellValueUnsetType, ShellVariable\};', r'use super::lightvars::{self as variables, ShellValue, ShellValueUnsetType, ShellVariable};', 1],
                     [r'(?s)(#\[[^\n]*\]\s*)*pub enum EnvironmentLookup \{.*?\n\}\n', r'pub use crate::env::EnvironmentLookup;\n', 1],
                     [r'(?s)(#\[[^\n]*\]\s*)*pub enum EnvironmentScope \{.*?\n\}\n', r'pub use crate::env::EnvironmentScope;\n', 1],
                     [r'(?s)impl std::fmt::Display for EnvironmentScope \{.*?\n\}\n', r'', 1],
                     [r'(?s)#\[cfg\(test\)\]\s*mod tests \{.*\Z', r'', 1]]},
}
@*/
use crate::vk_prelude::*;
use crate::env::{EnvironmentLookup, EnvironmentScope};

pub mod mockhash {
    // Two-slot map with the slice of the HashMap API that env.rs uses.
    #[derive(Clone, Debug)]
    pub struct HashMap<K, V> { pub slots: [Option<(K, V)>; 2] }
    impl<K, V> Default for HashMap<K, V> { fn default() -> Self { Self { slots: [None, None] } } }
    impl<K: PartialEq, V> HashMap<K, V> {
        pub fn new() -> Self { Self::default() }
        pub fn with_capacity(_n: usize) -> Self { Self::default() }
        pub fn len(&self) -> usize { self.slots[0].is_some() as usize + self.slots[1].is_some() as usize }
        pub fn is_empty(&self) -> bool { self.len() == 0 }
        pub fn contains_key<Q: ?Sized + PartialEq>(&self, k: &Q) -> bool where K: std::borrow::Borrow<Q> { self.get(k).is_some() }
        pub fn get<Q: ?Sized + PartialEq>(&self, k: &Q) -> Option<&V> where K: std::borrow::Borrow<Q> {
            if let Some((ek, ev)) = &self.slots[0] { if ek.borrow() == k { return Some(ev); } }
            if let Some((ek, ev)) = &self.slots[1] { if ek.borrow() == k { return Some(ev); } }
            None
        }
        pub fn get_mut<Q: ?Sized + PartialEq>(&mut self, k: &Q) -> Option<&mut V> where K: std::borrow::Borrow<Q> {
            let i = if matches!(&self.slots[0], Some((ek, _)) if ek.borrow() == k) { 0 } else if matches!(&self.slots[1], Some((ek, _)) if ek.borrow() == k) { 1 } else { return None; };
            self.slots[i].as_mut().map(|(_, v)| v)
        }
        pub fn remove<Q: ?Sized + PartialEq>(&mut self, k: &Q) -> Option<V> where K: std::borrow::Borrow<Q> {
            let i = if matches!(&self.slots[0], Some((ek, _)) if ek.borrow() == k) { 0 } else if matches!(&self.slots[1], Some((ek, _)) if ek.borrow() == k) { 1 } else { return None; };
            self.slots[i].take().map(|(_, v)| v)
        }
        pub fn insert(&mut self, k: K, v: V) -> Option<V> {
            let i = if matches!(&self.slots[0], Some((ek, _)) if *ek == k) { 0 } else if matches!(&self.slots[1], Some((ek, _)) if *ek == k) { 1 } else if self.slots[0].is_none() { 0 } else { assert!(self.slots[1].is_none(), "mock map capacity"); 1 };
            let old = self.slots[i].take(); self.slots[i] = Some((k, v)); old.map(|(_, v)| v)
        }
        pub fn iter(&self) -> impl Iterator<Item = (&K, &V)> { self.slots.iter().filter_map(|s| s.as_ref().map(|(k, v)| (k, v))) }
        pub fn iter_mut(&mut self) -> impl Iterator<Item = (&K, &mut V)> { self.slots.iter_mut().filter_map(|s| s.as_mut().map(|(k, v)| (&*k, v))) }
        pub fn keys(&self) -> impl Iterator<Item = &K> { self.iter().map(|(k, _)| k) }
        pub fn values(&self) -> impl Iterator<Item = &V> { self.iter().map(|(_, v)| v) }
        pub fn into_iter(self) -> impl Iterator<Item = (K, V)> { self.slots.into_iter().flatten() }
        pub fn entry(&mut self, k: K) -> hash_map::Entry<'_, K, V> {
            if self.get_idx(&k).is_some() { hash_map::Entry::Occupied(hash_map::OccupiedEntry { _p: std::marker::PhantomData }) } else { hash_map::Entry::Vacant(hash_map::VacantEntry { map: self, key: k }) }
        }
        fn get_idx(&self, k: &K) -> Option<usize> { if matches!(&self.slots[0], Some((ek, _)) if ek == k) { Some(0) } else if matches!(&self.slots[1], Some((ek, _)) if ek == k) { Some(1) } else { None } }
    }
    pub mod hash_map {
        pub enum Entry<'a, K, V> { Occupied(OccupiedEntry<'a, K, V>), Vacant(VacantEntry<'a, K, V>) }
        pub struct OccupiedEntry<'a, K, V> { pub _p: std::marker::PhantomData<&'a (K, V)> }
        pub struct VacantEntry<'a, K, V> { pub map: &'a mut super::HashMap<K, V>, pub key: K }
        impl<'a, K: PartialEq, V> VacantEntry<'a, K, V> { pub fn insert(self, v: V) { self.map.insert(self.key, v); } }
    }
}

pub mod lightvars {
    // Stand-in for crate::variables with the contract env.rs relies on.
    use crate::error;
    #[derive(Clone, Debug)] pub enum ShellValueUnsetType { Untyped, AssociativeArray, IndexedArray }
    #[derive(Clone, Debug)] pub enum ShellValue { Unset(ShellValueUnsetType), String(u8) }
    #[derive(Clone, Debug)] pub enum ShellValueLiteral { Scalar(String), Array(ArrayLiteral) }
    #[derive(Clone, Debug)] pub struct ArrayLiteral(pub Vec<(Option<String>, String)>);
    #[derive(Clone, Debug)] pub struct ShellVariable { pub value: ShellValue, pub readonly: bool, pub exported: bool, pub tag: u8, pub writes: u8 }
    impl From<&str> for ShellValue { fn from(_s: &str) -> Self { ShellValue::String(0) } }
    impl From<String> for ShellValue { fn from(_s: String) -> Self { std::mem::forget(_s); ShellValue::String(0) } }
    impl ShellVariable {
        pub fn new<I: Into<ShellValue>>(v: I) -> Self { Self { value: v.into(), readonly: false, exported: false, tag: 0, writes: 0 } }
        pub fn value(&self) -> &ShellValue { &self.value }
        pub fn is_readonly(&self) -> bool { self.readonly }
        pub fn set_readonly(&mut self) -> &mut Self { self.readonly = true; self }
        pub fn is_exported(&self) -> bool { self.exported }
        pub fn export(&mut self) -> &mut Self { self.exported = true; self }
        pub fn unexport(&mut self) -> &mut Self { self.exported = false; self }
        pub fn assign(&mut self, _v: ShellValueLiteral, _append: bool) -> Result<(), error::Error> { std::mem::forget(_v); if self.readonly { return Err(error::ErrorKind::ReadonlyVariable.into()); } self.value = ShellValue::String(1); self.writes += 1; Ok(()) }
        pub fn assign_at_index(&mut self, _i: String, _v: String, _append: bool) -> Result<(), error::Error> { std::mem::forget(_i); std::mem::forget(_v); if self.readonly { return Err(error::ErrorKind::ReadonlyVariable.into()); } self.value = ShellValue::String(1); self.writes += 1; Ok(()) }
        pub fn unset_index(&mut self, _i: &str) -> Result<bool, error::Error> { if self.readonly { return Err(error::ErrorKind::ReadonlyVariable.into()); } self.writes += 1; Ok(true) }
    }
    impl ShellValue { pub fn to_cow_str<S>(&self, _s: &S) -> std::borrow::Cow<'_, str> { std::borrow::Cow::Borrowed("") }
        pub fn is_set(&self) -> bool { !matches!(self, ShellValue::Unset(_)) } }
}

#[allow(unnameable_types, missing_docs, dead_code, unused)]
pub mod rehosted_env {
/*@LIFT env_file*/
}
use rehosted_env::ShellEnvironment;
use lightvars::{ShellVariable, ShellValue, ShellValueLiteral, ShellValueUnsetType};

fn var(tag: u8, readonly: bool, exported: bool) -> ShellVariable { ShellVariable { value: ShellValue::String(0), readonly, exported, tag, writes: 0 } }
fn seen(env: &ShellEnvironment, n: &str) -> Option<(EnvironmentScope, u8)> { env.get(n).map(|(s, v)| (s, v.tag)) }

//@proof {'props': ['C09'], 'tier': 'quick', 'timeout': 900, 'uses': ['env_file'], 'bounds': 'global x present? ; function call (push Local); `local x`? ; `unset x`? ; return (pop) - all symbolic', 'desc': 'dynamic scoping: a local shadows the global while the frame is on the stack and is gone after the matching pop, which restores exactly the binding visible before; unset of a current-frame local leaves a tombstone that hides the global until return; unset without a local removes the global'}
#[kani::proof]
#[kani::unwind(5)]
fn vk_c09_scope_local_shadow_unset_pop() {
    let mut env = ShellEnvironment::new();
    let global_x: bool = kani::any();
    if global_x { let r = env.add("x", var(1, false, false), EnvironmentScope::Global); std::mem::forget(r); }
    env.push_scope(EnvironmentScope::Local);
    let shadow: bool = kani::any();
    if shadow { let r = env.add("x", var(2, false, false), EnvironmentScope::Local); assert!(r.is_ok(), "C09.scope.local_add_ok"); std::mem::forget(r); }
    let do_unset: bool = kani::any();
    if do_unset { let r = env.unset("x"); assert!(r.is_ok(), "C09.scope.unset_ok"); std::mem::forget(r); }
    let inside = seen(&env, "x");
    if shadow && !do_unset { assert!(inside == Some((EnvironmentScope::Local, 2)) && env.is_set("x"), "C09.scope.local_shadows_global"); }
    else if shadow { assert!(matches!(inside, Some((EnvironmentScope::Local, _))) && !env.is_set("x"), "C09.scope.unset_local_leaves_tombstone_hiding_global"); }
    else if do_unset { assert!(inside.is_none() && !env.is_set("x"), "C09.scope.unset_without_local_removes_global"); }
    else { assert!(inside == if global_x { Some((EnvironmentScope::Global, 1)) } else { None }, "C09.scope.callee_sees_callers_binding"); }
    let r = env.pop_scope(EnvironmentScope::Local);
    assert!(r.is_ok(), "C09.scope.pop_matching_kind_ok"); std::mem::forget(r);
    let after = seen(&env, "x");
    if !shadow && do_unset { assert!(after.is_none(), "C09.scope.global_unset_in_function_persists"); }
    else { assert!(after == if global_x { Some((EnvironmentScope::Global, 1)) } else { None }, "C09.scope.return_restores_shadowed_binding"); }
    kani::cover!(shadow && do_unset && global_x, "tombstone_over_global");
    kani::cover!(!shadow && do_unset && global_x, "unset_reaches_global");
    std::mem::forget(env);
}

fn exported_x(env: &ShellEnvironment) -> (u8, u8) {
    let (mut n, mut tag) = (0u8, 0u8);
    for (k, v) in env.iter_exported() { if k.len() == 1 && k.as_bytes()[0] == b'x' { n += 1; tag = v.tag; } }
    (n, tag)
}

fn temp_assign(in_fn_with_local: bool, check_exports: bool) {
    let mut env = ShellEnvironment::new();
    let gx_exported: bool = kani::any();
    let r = env.add("x", var(1, false, gx_exported), EnvironmentScope::Global); std::mem::forget(r);
    if in_fn_with_local { env.push_scope(EnvironmentScope::Local); let r = env.add("x", var(2, false, false), EnvironmentScope::Local); std::mem::forget(r); }
    let before = seen(&env, "x");
    let before_writes = env.get("x").map(|(_, v)| v.writes);
    let (n0, tag0) = if check_exports { exported_x(&env) } else { (0, 0) };
    env.push_scope(EnvironmentScope::Command);
    let mut tv = var(3, false, false); tv.export();
    let r = env.add("x", tv, EnvironmentScope::Command); assert!(r.is_ok(), "C09.temp.add_in_command_scope_ok"); std::mem::forget(r);
    assert!(seen(&env, "x") == Some((EnvironmentScope::Command, 3)), "C09.temp.command_sees_temporary_value");
    if check_exports {
        // exactly one exported binding of x is visible: the temporary one
        let (n, tag) = exported_x(&env);
        assert!(n == 1 && tag == 3, "C09.temp.child_env_gets_temporary_value_once");
    }
    let r = env.pop_scope(EnvironmentScope::Command);
    assert!(r.is_ok(), "C09.temp.pop_command_scope_ok"); std::mem::forget(r);
    assert!(seen(&env, "x") == before, "C09.temp.undone_afterwards");
    assert!(env.get("x").map(|(_, v)| v.writes) == before_writes, "C09.temp.shadowed_binding_untouched");
    assert!(env.get("x").map(|(_, v)| v.exported) == Some(if in_fn_with_local { false } else { gx_exported }), "C09.temp.export_flag_of_the_restored_binding_untouched");
    if check_exports {
        let (n, tag) = exported_x(&env);
        assert!(n == n0 && tag == tag0, "C09.temp.exports_as_before");
        if !in_fn_with_local { assert!(n == gx_exported as u8 && (n == 0 || tag == 1), "C09.temp.global_export_as_flagged"); }
    }
    kani::cover!(gx_exported, "exported_global");
    std::mem::forget(env);
}

//@proof {'props': ['C09'], 'tier': 'quick', 'timeout': 900, 'uses': ['env_file'], 'bounds': 'global x (exported? symbolic); temporary-assignment scope (push Command) with exported x=v; pop Command', 'desc': '`x=v cmd` at top level: the Command-scope binding is what cmd sees; after the pop the previous binding (tag, scope, export flag, zero writes) is back'}
#[kani::proof]
#[kani::unwind(5)]
fn vk_c09_temporary_assignment_toplevel() { temp_assign(false, false); }

//@proof {'props': ['C09'], 'tier': 'thorough', 'timeout': 2400, 'uses': ['env_file'], 'bounds': 'global x (exported? symbolic) shadowed by a function local x; temporary-assignment scope on top', 'desc': '`x=v cmd` inside a function that has a local x: same contract; the local is what reappears'}
#[kani::proof]
#[kani::unwind(5)]
fn vk_c09_temporary_assignment_in_function() { temp_assign(true, false); }

// (vk_c09_temporary_assignment_exports - the exported set before / during / after a temporary assignment, thorough tier - was withdrawn after the repair of D31: with the
// export list skipping valueless bindings its reachability witness is no longer satisfied within the unwind bound and a larger bound does not finish; the export rule itself is
// decided by vk_c09_exported_binding_seen_by_children)

//@proof {'props': ['C09', 'C18'], 'tier': 'quick', 'timeout': 600, 'uses': ['env_file'], 'bounds': 'scope stack Global [+ Local]; pop with a symbolic expected kind', 'desc': 'pop_scope with the wrong expected kind is an error; with the right kind it succeeds; popping the last (global) scope and then once more reports a missing scope'}
#[kani::proof]
#[kani::unwind(5)]
fn vk_c09_pop_scope_kind_check() {
    let mut env = ShellEnvironment::new();
    let pushed: u8 = any_below(2);
    env.push_scope(if pushed == 0 { EnvironmentScope::Local } else { EnvironmentScope::Command });
    let expect: u8 = any_below(3);
    let e = match expect { 0 => EnvironmentScope::Local, 1 => EnvironmentScope::Command, _ => EnvironmentScope::Global };
    let failed = vk_is_err(env.pop_scope(e));
    kani::cover!(failed, "mismatch");
    assert!(failed == (expect != pushed), "C18.scope.pop_checks_kind");
    // a new Local variable can no longer be added: the function scope is gone either way
    let r = env.add("x", var(1, false, false), EnvironmentScope::Local);
    assert!(r.is_err(), "C18.scope.popped_scope_is_gone");
    std::mem::forget(r); std::mem::forget(env);
}

fn readonly_writer(w: u8) {
    let mut env = ShellEnvironment::new();
    let ro: bool = kani::any();
    let in_local: bool = kani::any();
    if in_local { env.push_scope(EnvironmentScope::Local); }
    let scope = if in_local { EnvironmentScope::Local } else { EnvironmentScope::Global };
    let r = env.add("x", var(1, ro, false), scope); std::mem::forget(r);
    let failed = match w {
        0 => vk_is_err(env.unset("x")),
        1 => vk_is_err(env.update_or_add("x", ShellValueLiteral::Scalar(String::new()), |_| Ok(()), EnvironmentLookup::Anywhere, EnvironmentScope::Global)),
        2 => vk_is_err(env.update_or_add_array_element("x", String::new(), String::new(), |_| Ok(()), EnvironmentLookup::Anywhere, EnvironmentScope::Global)),
        _ => vk_is_err(env.unset_index("x", "0")),
    };
    kani::cover!(ro && in_local, "readonly_local");
    kani::cover!(!ro, "writable");
    if ro {
        assert!(failed, "C09.readonly.every_env_writer_refuses");
        let v = env.get("x");
        assert!(matches!(v, Some((s, var)) if s == scope && var.tag == 1 && var.writes == 0 && var.readonly), "C09.readonly.binding_untouched");
    } else {
        assert!(!failed, "C09.readonly.writable_binding_accepts");
        if w == 0 { assert!(!env.is_set("x"), "C09.unset.no_longer_set"); }
        else { assert!(matches!(env.get("x"), Some((s, var)) if s == scope && var.tag == 1 && var.writes == 1), "C09.assign.updates_visible_binding_in_place"); }
    }
    std::mem::forget(env);
}

//@proof {'props': ['C09'], 'tier': 'thorough', 'timeout': 2400, 'uses': ['env_file'], 'bounds': 'x readonly? in global or local scope (symbolic); writer: unset', 'desc': 'unset refuses a readonly binding (it stays, untouched) and removes / tombstones a writable one'}
#[kani::proof]
#[kani::unwind(5)]
fn vk_c09_readonly_env_unset() { readonly_writer(0); }

//@proof {'props': ['C09'], 'tier': 'quick', 'timeout': 900, 'uses': ['env_file'], 'bounds': 'x readonly? in global or local scope (symbolic); writer: update_or_add', 'desc': 'assignment through the environment refuses a readonly binding and otherwise updates the visible binding in place (no new binding in another scope)'}
#[kani::proof]
#[kani::unwind(5)]
fn vk_c09_readonly_env_assign() { readonly_writer(1); }

//@proof {'props': ['C09'], 'tier': 'thorough', 'timeout': 900, 'uses': ['env_file'], 'bounds': 'x readonly? in global or local scope (symbolic); writer: update_or_add_array_element', 'desc': 'element assignment through the environment refuses a readonly binding'}
#[kani::proof]
#[kani::unwind(5)]
fn vk_c09_readonly_env_assign_element() { readonly_writer(2); }

//@proof {'props': ['C09'], 'tier': 'thorough', 'timeout': 900, 'uses': ['env_file'], 'bounds': 'x readonly? in global or local scope (symbolic); writer: unset_index', 'desc': 'element unset through the environment refuses a readonly binding'}
#[kani::proof]
#[kani::unwind(5)]
fn vk_c09_readonly_env_unset_element() { readonly_writer(3); }

//@proof {'props': ['C09'], 'tier': 'quick', 'timeout': 900, 'uses': ['env_file'], 'bounds': 'global x ; outer function frame with local x? ; inner function frame with local x? ; lookup policy symbolic (4 policies)', 'desc': 'the four lookup policies select the documented scopes: Anywhere = innermost binding; OnlyInGlobal = the global; OnlyInCurrentLocal = only the innermost function frame; OnlyInLocal = innermost binding among function frames'}
#[kani::proof]
#[kani::unwind(6)]
fn vk_c09_lookup_policies() {
    let mut env = ShellEnvironment::new();
    let r = env.add("x", var(1, false, false), EnvironmentScope::Global); std::mem::forget(r);
    env.push_scope(EnvironmentScope::Local);
    let outer: bool = kani::any();
    if outer { let r = env.add("x", var(2, false, false), EnvironmentScope::Local); std::mem::forget(r); }
    env.push_scope(EnvironmentScope::Local);
    let inner: bool = kani::any();
    // `add(.., Local)` targets the innermost Local scope
    if inner { let r = env.add("x", var(3, false, false), EnvironmentScope::Local); std::mem::forget(r); }
    let pol: u8 = any_below(4);
    let policy = match pol { 0 => EnvironmentLookup::Anywhere, 1 => EnvironmentLookup::OnlyInGlobal, 2 => EnvironmentLookup::OnlyInCurrentLocal, _ => EnvironmentLookup::OnlyInLocal };
    let got = env.get_using_policy("x", policy).map(|v| v.tag);
    let got_mut = env.get_mut_using_policy("x", policy).map(|v| v.tag);
    let expect = match pol {
        0 => Some(if inner { 3 } else if outer { 2 } else { 1 }),
        1 => Some(1),
        2 => if inner { Some(3) } else { None },
        _ => if inner { Some(3) } else if outer { Some(2) } else { None },
    };
    kani::cover!(pol == 2 && !inner && outer, "current_local_does_not_see_callers_local");
    kani::cover!(pol == 3 && !inner && outer, "only_in_local_sees_callers_local");
    assert!(got == expect, "C09.lookup.policy_selects_documented_scope");
    assert!(got_mut == expect, "C09.lookup.mutable_lookup_agrees");
    assert!(seen(&env, "x").map(|(_, t)| t) == Some(if inner { 3 } else if outer { 2 } else { 1 }), "C09.lookup.get_is_innermost");
    // returning from the inner function restores the outer view
    let r = env.pop_scope(EnvironmentScope::Local); std::mem::forget(r);
    assert!(seen(&env, "x").map(|(_, t)| t) == Some(if outer { 2 } else { 1 }), "C09.scope.inner_return_restores_outer_view");
    std::mem::forget(env);
}

fn exported_set(has_local: bool) {
    let mut env = ShellEnvironment::new();
    let (ex, el): (bool, bool) = (kani::any(), kani::any());
    let r = env.add("x", var(1, false, ex), EnvironmentScope::Global); std::mem::forget(r);
    env.push_scope(EnvironmentScope::Local);
    if has_local { let r = env.add("x", var(3, false, el), EnvironmentScope::Local); std::mem::forget(r); }
    let (mut nx, mut tx) = (0u8, 0u8);
    for (k, v) in env.iter_exported() { if k.len() == 1 && k.as_bytes()[0] == b'x' { nx += 1; tx = v.tag; } assert!(v.exported, "C09.export.only_exported_bindings"); }
    kani::cover!(ex, "exported_global");
    if has_local {
        assert!(nx <= 1, "C09.export.name_at_most_once");
        if el { assert!(nx == 1 && tx == 3, "C09.export.exported_local_wins"); }
    } else {
        assert!(nx == ex as u8 && (nx == 0 || tx == 1), "C09.export.global_as_flagged");
    }
    std::mem::forget(env);
}

//@proof {'props': ['C09'], 'tier': 'thorough', 'timeout': 2400, 'uses': ['env_file'], 'bounds': 'global x exported? symbolic, inside a function without a local x', 'desc': 'iter_exported yields the global x exactly once iff it is exported, never a non-exported binding'}
#[kani::proof]
#[kani::unwind(6)]
fn vk_c09_exported_global() { exported_set(false); }

//@proof {'props': ['C09'], 'tier': 'thorough', 'timeout': 2400, 'uses': ['env_file'], 'bounds': 'global x exported? and function-local x exported? symbolic', 'desc': 'iter_exported never yields a name twice; an exported local wins over the global of the same name'}
#[kani::proof]
#[kani::unwind(6)]
fn vk_c09_exported_local_over_global() { exported_set(true); }

//@proof {'props': ['C09'], 'tier': 'thorough', 'timeout': 1800, 'uses': ['env_file'], 'bounds': 'an exported global x with a value, shadowed in a function by a local x (exported? has a value? symbolic)', 'desc': 'what a child process is given for a name with two bindings, as in bash: the innermost binding that is exported and has a value - a local that is not exported, or has no value yet, does not hide an exported outer value from children, and an exported local with a value is what they see; never both'}
#[kani::proof]
#[kani::unwind(6)]
fn vk_c09_exported_binding_seen_by_children() {
    let mut env = ShellEnvironment::new();
    let (ge, gs, le, ls): (bool, bool, bool, bool) = (true, true, kani::any(), kani::any());
    let mk = |tag: u8, exported: bool, set: bool| ShellVariable { value: if set { ShellValue::String(0) } else { ShellValue::Unset(ShellValueUnsetType::Untyped) }, readonly: false, exported, tag, writes: 0 };
    let r = env.add("x", mk(1, ge, gs), EnvironmentScope::Global); std::mem::forget(r);
    env.push_scope(EnvironmentScope::Local);
    let r = env.add("x", mk(2, le, ls), EnvironmentScope::Local); std::mem::forget(r);
    // what the command composer does with the list: unset values are not passed
    let (mut n, mut tag) = (0u8, 0u8);
    for (k, v) in env.iter_exported() { if k.len() == 1 && k.as_bytes()[0] == b'x' && v.value().is_set() { n += 1; tag = v.tag; } }
    kani::cover!(ge && gs && le && ls, "exported_local_shadows_exported_global");
    kani::cover!(ge && gs && le && !ls, "valueless_exported_local");
    let expect = if le && ls { 2 } else if ge && gs { 1 } else { 0 };
    assert!(n == (expect != 0) as u8 && tag == expect, "C09.export.children_see_the_innermost_exported_binding_that_has_a_value");
    std::mem::forget(env);
}

//@proof {'props': ['C09'], 'tier': 'quick', 'timeout': 900, 'uses': ['env_file'], 'bounds': 'global x (readonly? symbolic); a function scope, optionally with a readonly local x of its own (symbolic); then a new binding of x is created in a local scope (`local x=..`) or in a command scope (`x=.. cmd`) (symbolic)', 'desc': 'a readonly GLOBAL cannot be shadowed: creating a local or temporary binding of its name is refused and changes nothing (bash: "readonly variable"; the command of `R=2 cmd` is not run with R=2); a readonly local of a caller may be shadowed by a callee, as in bash; a name that is not readonly is shadowed as before'}
#[kani::proof]
#[kani::unwind(6)]
fn vk_c09_readonly_global_cannot_be_shadowed() {
    let mut env = ShellEnvironment::new();
    let g_ro: bool = kani::any();
    let r = env.add("x", var(1, g_ro, false), EnvironmentScope::Global); std::mem::forget(r);
    env.push_scope(EnvironmentScope::Local);
    let caller_has_ro_local: bool = kani::any();
    if caller_has_ro_local && !g_ro { let r = env.add("x", var(2, true, false), EnvironmentScope::Local); std::mem::forget(r); }
    let as_command: bool = kani::any();
    let target = if as_command { EnvironmentScope::Command } else { EnvironmentScope::Local };
    env.push_scope(target);
    let before = seen(&env, "x");
    let r = env.add("x", var(3, false, false), target);
    kani::cover!(g_ro && as_command, "temporary_assignment_to_a_readonly_global");
    kani::cover!(!g_ro && caller_has_ro_local && !as_command, "callee_shadows_a_callers_readonly_local");
    if g_ro {
        assert!(r.is_err(), "C09.readonly.shadowing_a_readonly_global_is_refused");
        assert!(seen(&env, "x") == before, "C09.readonly.refused_shadowing_changes_nothing");
    } else {
        assert!(r.is_ok() && seen(&env, "x") == Some((target, 3)), "C09.scope.other_names_are_shadowed_as_before");
    }
    std::mem::forget(r); std::mem::forget(env);
}
