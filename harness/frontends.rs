/*@meta
{
 'package': 'brush-core',
 'host': 'brush-core/src/shell/execution.rs',
 'stubs': ['tracing -> no-op stub crate', 'std::hash::RandomState::new -> fixed keys', 'std::time::SystemTime::now -> UNIX_EPOCH',
           'run_string / run_program / parse / open_file / source_file / run_parsed_result awaited inside the front-end functions -> oracles returning arbitrary Ok(status, flow) / Err as noted per harness',
           'start/end_command_string_mode, call_stack.push_script / pop, on_exit -> counting oracles', 'display_error -> counter'],
 'assumptions': ['one front-end call; the program run is an oracle'],
 'out_of_claim': ['brush-shell entry.rs and interactive_shell.rs (binary-side front-ends)', 'exec', 'signal traps', 'what the EXIT handler prints and when'],
}
@*/
/*@recipes
{
 'run_parsed': {'file': 'brush-core/src/shell/execution.rs', 'start': r'pub\(crate\) async fn run_parsed_result\(', 'mode': 'fn_body', 'self_to': 'this', 'deasync': True,
        'rewrites': [[r'this\.run_program\(prog, params\)', r'__o.run_program(this, prog)', 1],
                     [r'this\.display_error\(&mut params\.stderr\(this\), &err\)', r'__o.display_error(&err)', 1]]},
 'dash_c': {'file': 'brush-core/src/shell/execution.rs', 'start': r'pub async fn run_dash_c_command<S: Into<String>>\(', 'mode': 'fn_body', 'self_to': 'this', 'deasync': True,
        'rewrites': [[r'this\.default_exec_params\(\)', r'__o.params()', 1],
                     [r'this\.start_command_string_mode\(\)', r'__o.start_cs()', 1],
                     [r'this\.run_string\(command, &source_info, &params\)', r'__o.run_string(this, command)', 1],
                     [r'this\.end_command_string_mode\(\)', r'__o.end_cs()', 1],
                     [r'this\.on_exit\(\)', r'__o.on_exit(this)', 1]]},
 'run_script': {'file': 'brush-core/src/shell/execution.rs', 'start': r'pub async fn run_script<S: Into<String>, P: AsRef<Path>, I: Iterator<Item = S>>\(', 'mode': 'fn_body', 'self_to': 'this', 'deasync': True,
        'rewrites': [[r'this\.default_exec_params\(\)', r'__o.params()', 1],
                     [r'this\s*\.parse_and_execute_script_file\(\s*script_path\.as_ref\(\),\s*args,\s*&params,\s*callstack::ScriptCallType::Run,\s*\)', r'__o.exec_file(this, script_path.as_ref(), args)', 1],
                     [r'this\.on_exit\(\)', r'__o.on_exit(this)', 1]]},
 'exec_file': {'file': 'brush-core/src/shell/execution.rs', 'start': r'async fn parse_and_execute_script_file<', 'mode': 'fn_body', 'self_to': 'this', 'deasync': True,
        'rewrites': [[r'this\s*\.open_file\(&options, path, params\)', r'__o.open_file(path)', 1],
                     [r'this\s*\.source_file\(opened_file, &source_info, args, params, call_type\)', r'__o.source_file(this, opened_file, args)', 1]]},
 'source_file': {'file': 'brush-core/src/shell/execution.rs', 'start': r'async fn source_file<F: Read, S: Into<String>, I: Iterator<Item = S>>\(', 'mode': 'fn_body', 'self_to': 'this', 'deasync': True,
        'rewrites': [[r'let mut reader = std::io::BufReader::new\(file\);\s*let mut parser = brush_parser::Parser::new\(&mut reader, &this\.parser_options\(\)\);', r'', 1],
                     [r'parser\.parse_program\(\)', r'__o.parse(file)', 1],
                     [r'this\.call_stack\s*\.push_script\(call_type, source_info, script_positional_args\)', r'__o.push_script(call_type, script_positional_args)', 1],
                     [r'this\s*\.run_parsed_result\(parse_result, source_info, params\)', r'__o.run_parsed(this, parse_result)', 1],
                     [r'this\.call_stack\.pop\(\)', r'__o.pop()', 1]]},
}
@*/
use super::*;
use crate::vk_prelude::*;

type Sh = crate::Shell<crate::extensions::DefaultShellExtensions>;

pub struct FileTok { pub dir: bool }
impl FileTok { pub fn is_dir(&self) -> bool { self.dir } }
/// shadows `crate::openfiles` inside this module: the lifted text names `openfiles::OpenFile` in a type annotation
pub mod openfiles { pub type OpenFile = super::FileTok; }

pub fn flow(f: u8) -> ExecutionControlFlow {
    match f { 0 => ExecutionControlFlow::Normal, 1 => ExecutionControlFlow::ReturnFromFunctionOrScript, 2 => ExecutionControlFlow::ExitShell, 3 => ExecutionControlFlow::BreakLoop { levels: 0 }, _ => ExecutionControlFlow::ContinueLoop { levels: 0 } }
}
pub fn flow_tag(c: &ExecutionControlFlow) -> u8 {
    match c { ExecutionControlFlow::Normal => 0, ExecutionControlFlow::ReturnFromFunctionOrScript => 1, ExecutionControlFlow::ExitShell => 2, ExecutionControlFlow::BreakLoop { .. } => 3, ExecutionControlFlow::ContinueLoop { .. } => 4 }
}

pub struct FOracle {
    pub code: u8, pub flow: u8, pub run_fails: bool, pub fatal: bool, pub open_fails: bool, pub is_dir: bool, pub end_fails: bool, pub exit_fails: bool, pub parse_fails: bool,
    pub t: u8,                       // logical clock
    pub started_at: u8, pub ran_at: u8, pub ended_at: u8, pub exit_at: u8, pub pushed_at: u8, pub popped_at: u8,
    pub starts: u8, pub runs: u8, pub ends: u8, pub exits: u8, pub pushes: u8, pub pops: u8, pub displayed: u8, pub opens: u8, pub sources: u8, pub parses: u8,
    pub status_at_exit: u8, pub push_kind_source: bool,
}
impl FOracle {
    pub fn new() -> Self {
        let o = FOracle { code: kani::any(), flow: kani::any(), run_fails: kani::any(), fatal: kani::any(), open_fails: kani::any(), is_dir: kani::any(), end_fails: kani::any(), exit_fails: kani::any(), parse_fails: kani::any(),
                  t: 0, started_at: 0, ran_at: 0, ended_at: 0, exit_at: 0, pushed_at: 0, popped_at: 0,
                  starts: 0, runs: 0, ends: 0, exits: 0, pushes: 0, pops: 0, displayed: 0, opens: 0, sources: 0, parses: 0, status_at_exit: 0, push_kind_source: false };
        kani::assume(o.flow < 5);
        o
    }
    fn tick(&mut self) -> u8 { self.t += 1; self.t }
    /// default_exec_params(): the parameters are only passed on to the (oracle) program run
    fn params(&self) -> u8 { 0 }
    fn result(&self) -> ExecutionResult { let mut r = ExecutionResult::new(self.code); r.next_control_flow = flow(self.flow); r }
    fn an_error(&self) -> error::Error { let e: error::Error = error::ErrorKind::NotArray.into(); if self.fatal { e.into_fatal() } else { e } }
    // ---- run_parsed_result
    fn run_program(&mut self, shell: &mut Sh, prog: brush_parser::ast::Program) -> Result<ExecutionResult, error::Error> {
        std::mem::forget(prog);
        self.runs += 1; self.ran_at = self.tick();
        if self.run_fails { return Err(self.an_error()); }
        shell.set_last_exit_status(self.code);
        Ok(self.result())
    }
    fn display_error(&mut self, _e: &error::Error) -> Result<(), error::Error> { self.displayed += 1; Ok(()) }
    // ---- run_dash_c_command
    fn start_cs(&mut self) { self.starts += 1; self.started_at = self.tick(); }
    fn run_string(&mut self, shell: &mut Sh, command: String) -> Result<ExecutionResult, error::Error> {
        std::mem::forget(command);
        self.runs += 1; self.ran_at = self.tick();
        if self.run_fails { return Err(self.an_error()); }
        shell.set_last_exit_status(self.code);
        Ok(self.result())
    }
    fn end_cs(&mut self) -> Result<(), error::Error> { self.ends += 1; self.ended_at = self.tick(); if self.end_fails { Err(error::ErrorKind::NotExecutingCommandString.into()) } else { Ok(()) } }
    /// the front-ends ignore the outcome (`let _ = ...`): a light error type keeps the real Error's drop glue out of the harness
    fn on_exit(&mut self, shell: &mut Sh) -> Result<(), u8> {
        self.exits += 1; self.exit_at = self.tick(); self.status_at_exit = shell.last_exit_status();
        if self.exit_fails { Err(1) } else { Ok(()) }
    }
    // ---- run_script / parse_and_execute_script_file
    fn exec_file(&mut self, shell: &mut Sh, _p: &Path, _args: std::iter::Empty<String>) -> Result<ExecutionResult, error::Error> {
        self.runs += 1; self.ran_at = self.tick();
        if self.run_fails { return Err(self.an_error()); }
        shell.set_last_exit_status(self.code);
        Ok(self.result())
    }
    fn open_file(&mut self, _p: &Path) -> Result<FileTok, std::io::Error> {
        self.opens += 1;
        if self.open_fails { Err(std::io::Error::from(std::io::ErrorKind::NotFound)) } else { Ok(FileTok { dir: self.is_dir }) }
    }
    fn source_file(&mut self, shell: &mut Sh, _f: FileTok, _args: std::iter::Empty<String>) -> Result<ExecutionResult, error::Error> {
        self.sources += 1;
        if self.run_fails { return Err(self.an_error()); }
        shell.set_last_exit_status(self.code);
        Ok(self.result())
    }
    // ---- source_file
    fn parse(&mut self, _f: FileTok) -> Result<brush_parser::ast::Program, brush_parser::ParseError> {
        self.parses += 1;
        if self.parse_fails { Err(brush_parser::ParseError::ParsingAtEndOfInput) } else { Ok(brush_parser::ast::Program { complete_commands: Vec::new() }) }
    }
    fn push_script<I: Iterator<Item = String>>(&mut self, k: callstack::ScriptCallType, _a: I) { self.pushes += 1; self.pushed_at = self.tick(); self.push_kind_source = matches!(k, callstack::ScriptCallType::Source); }
    fn pop(&mut self) { self.pops += 1; self.popped_at = self.tick(); }
    fn run_parsed(&mut self, shell: &mut Sh, pr: Result<brush_parser::ast::Program, brush_parser::ParseError>) -> Result<ExecutionResult, error::Error> {
        std::mem::forget(pr);
        self.runs += 1; self.ran_at = self.tick();
        if self.run_fails { return Err(self.an_error()); }
        shell.set_last_exit_status(self.code);
        Ok(self.result())
    }
}

fn t_run_parsed(this: &mut Sh, parse_result: Result<brush_parser::ast::Program, brush_parser::ParseError>, source_info: &crate::SourceInfo, params: &ExecutionParameters, __o: &mut FOracle) -> Result<ExecutionResult, error::Error> {
/*@LIFT run_parsed*/
}
fn t_dash_c(this: &mut Sh, command: String, __o: &mut FOracle) -> Result<ExecutionResult, error::Error> {
/*@LIFT dash_c*/
}
fn t_run_script(this: &mut Sh, script_path: &Path, args: std::iter::Empty<String>, __o: &mut FOracle) -> Result<ExecutionResult, error::Error> {
/*@LIFT run_script*/
}
fn t_exec_file<P: AsRef<Path>>(this: &mut Sh, path: P, args: std::iter::Empty<String>, params: &ExecutionParameters, call_type: callstack::ScriptCallType, __o: &mut FOracle) -> Result<ExecutionResult, error::Error> {
/*@LIFT exec_file*/
}
fn t_source_file(this: &mut Sh, file: FileTok, source_info: &crate::SourceInfo, args: std::iter::Empty<String>, params: &ExecutionParameters, call_type: callstack::ScriptCallType, __o: &mut FOracle) -> Result<ExecutionResult, error::Error> {
/*@LIFT source_file*/
}

//@proof {'props': ['C16'], 'tier': 'quick', 'timeout': 900, 'uses': ['run_parsed'], 'bounds': 'parse outcome Ok/Err symbolic; program outcome arbitrary (status, flow) or an error (fatal or not)', 'desc': 'run_parsed_result is total: it never returns Err (so the `?` after run_string in the front-ends cannot skip the EXIT trap); an error is displayed once and becomes the status, which is also stored in $?; a successful program result is passed through unchanged'}
#[kani::proof]
#[kani::unwind(4)]
#[kani::stub(std::hash::RandomState::new, crate::vk_prelude::stub_random_state_new)]
#[kani::stub(std::time::SystemTime::now, crate::vk_prelude::stub_now)]
fn vk_c16_run_parsed_result_total() {
    let mut shell: Sh = crate::Shell::default();
    let mut o = FOracle::new();
    let params = ExecutionParameters::default();
    let si = crate::SourceInfo::default();
    let pr = if o.parse_fails { Err(brush_parser::ParseError::ParsingAtEndOfInput) } else { Ok(brush_parser::ast::Program { complete_commands: Vec::new() }) };
    let r = t_run_parsed(&mut shell, pr, &si, &params, &mut o);
    kani::cover!(!o.parse_fails && o.run_fails && o.fatal, "fatal_error_from_program");
    kani::cover!(o.parse_fails, "parse_error");
    assert!(r.is_ok(), "C16.run_parsed.never_returns_err");
    if let Ok(x) = &r {
        if o.parse_fails {
            assert!(o.runs == 0 && o.displayed == 1, "C16.run_parsed.parse_error_reported_program_not_run");
            assert!(u8::from(x.exit_code) != 0 && shell.last_exit_status() == u8::from(x.exit_code), "C16.run_parsed.parse_error_is_failure_status_in_dollar_question");
            assert!(matches!(x.next_control_flow, ExecutionControlFlow::ExitShell), "C16.run_parsed.parse_error_is_fatal_in_noninteractive_shell");
        } else if o.run_fails {
            assert!(o.runs == 1 && o.displayed == 1, "C16.run_parsed.error_displayed_once");
            assert!(u8::from(x.exit_code) != 0 && shell.last_exit_status() == u8::from(x.exit_code), "C16.run_parsed.error_becomes_status_and_dollar_question");
            if o.fatal { assert!(matches!(x.next_control_flow, ExecutionControlFlow::ExitShell), "C16.run_parsed.fatal_error_requests_exit"); }
        } else {
            assert!(o.runs == 1 && o.displayed == 0 && u8::from(x.exit_code) == o.code && flow_tag(&x.next_control_flow) == o.flow, "C02.run_parsed.result_passed_through");
        }
    }
    std::mem::forget(r); std::mem::forget(shell); std::mem::forget(params); std::mem::forget(si);
}

//@proof {'props': ['C16', 'C18'], 'tier': 'quick', 'timeout': 900, 'uses': ['dash_c'], 'bounds': 'program outcome arbitrary (status, flow incl. exit); EXIT handler may fail; end_command_string_mode may fail (broken stack invariant)', 'desc': 'brush -c: command-string frame pushed before and popped after the program; on_exit runs exactly once, after the pop, on every path on which the program ran and the frame was intact, and sees the program status in $?; its failure does not change the returned status'}
#[kani::proof]
#[kani::unwind(4)]
#[kani::stub(std::hash::RandomState::new, crate::vk_prelude::stub_random_state_new)]
#[kani::stub(std::time::SystemTime::now, crate::vk_prelude::stub_now)]
fn vk_c16_dash_c_exit_once() {
    let mut shell: Sh = crate::Shell::default();
    let mut o = FOracle::new();
    kani::assume(!o.run_fails);            // discharged by vk_c16_run_parsed_result_total: run_string never returns Err
    let r = t_dash_c(&mut shell, String::new(), &mut o);
    kani::cover!(o.flow == 2 && o.code == 3, "exit_3_inside_program");
    kani::cover!(o.exit_fails && !o.end_fails, "exit_handler_fails");
    assert!(o.starts == 1 && o.runs == 1 && o.ends == 1, "C18.dash_c.frame_pushed_and_popped_once");
    assert!(o.started_at < o.ran_at && o.ran_at < o.ended_at, "C18.dash_c.program_runs_inside_frame");
    if !o.end_fails {
        assert!(o.exits == 1 && o.exit_at > o.ended_at, "C16.dash_c.exit_trap_exactly_once_after_program");
        assert!(o.status_at_exit == o.code, "C16.dash_c.exit_trap_sees_terminating_status");
        assert!(matches!(&r, Ok(x) if u8::from(x.exit_code) == o.code && flow_tag(&x.next_control_flow) == o.flow), "C16.dash_c.status_unchanged_by_exit_handler_outcome");
    } else {
        assert!(r.is_err(), "C16.dash_c.broken_frame_reported");
    }
    std::mem::forget(r); std::mem::forget(shell);
}

//@proof {'props': ['C16'], 'tier': 'quick', 'timeout': 900, 'uses': ['run_script'], 'bounds': 'script outcome arbitrary (status, flow) or an error before anything ran (file cannot be opened); EXIT handler may fail', 'desc': 'brush script: on_exit runs exactly once after the script on every path on which it was parsed and run, sees its status, and its failure does not change the returned status; if the script could not be opened nothing ran and no trap can be registered'}
#[kani::proof]
#[kani::unwind(4)]
#[kani::stub(std::hash::RandomState::new, crate::vk_prelude::stub_random_state_new)]
#[kani::stub(std::time::SystemTime::now, crate::vk_prelude::stub_now)]
fn vk_c16_run_script_exit_once() {
    let mut shell: Sh = crate::Shell::default();
    let mut o = FOracle::new();
    let r = t_run_script(&mut shell, Path::new("/s"), std::iter::empty::<String>(), &mut o);
    kani::cover!(!o.run_fails && o.flow == 2, "exit_inside_script");
    kani::cover!(o.run_fails, "script_not_opened");
    assert!(o.runs == 1, "C16.run_script.script_run_once");
    if !o.run_fails {
        assert!(o.exits == 1 && o.exit_at > o.ran_at && o.status_at_exit == o.code, "C16.run_script.exit_trap_exactly_once_after_script_with_status");
        assert!(matches!(&r, Ok(x) if u8::from(x.exit_code) == o.code && flow_tag(&x.next_control_flow) == o.flow), "C16.run_script.status_unchanged_by_exit_handler_outcome");
    } else {
        assert!(r.is_err() && o.exits == 0, "C16.run_script.open_failure_propagates");
    }
    std::mem::forget(r); std::mem::forget(shell);
}

//@proof {'props': ['C02', 'C16'], 'tier': 'quick', 'timeout': 900, 'uses': ['exec_file'], 'bounds': 'open fails? directory? script outcome arbitrary; call type Source/Run symbolic', 'desc': 'script boundary: a `return` coming out of the script is consumed (flow becomes normal, status kept); break/continue/exit pass through; open failures and directories are errors and nothing is sourced'}
#[kani::proof]
#[kani::unwind(4)]
#[kani::stub(std::hash::RandomState::new, crate::vk_prelude::stub_random_state_new)]
#[kani::stub(std::time::SystemTime::now, crate::vk_prelude::stub_now)]
fn vk_c02_script_boundary() {
    let mut shell: Sh = crate::Shell::default();
    let mut o = FOracle::new();
    let params = ExecutionParameters::default();
    let src: bool = kani::any();
    let ct = if src { callstack::ScriptCallType::Source } else { callstack::ScriptCallType::Run };
    let r = t_exec_file(&mut shell, Path::new("/s"), std::iter::empty::<String>(), &params, ct, &mut o);
    kani::cover!(!o.open_fails && !o.is_dir && !o.run_fails && o.flow == 1, "return_at_script_level");
    kani::cover!(!o.open_fails && o.is_dir, "directory");
    assert!(o.opens == 1, "C02.script.opened_once");
    if o.open_fails || o.is_dir {
        assert!(o.sources == 0 && r.is_err(), "C02.script.unopenable_is_error_and_nothing_runs");
    } else {
        assert!(o.sources == 1, "C02.script.sourced_once");
        if o.run_fails { assert!(r.is_err(), "C02.script.error_propagates"); }
        else {
            let f_exp = if o.flow == 1 { 0 } else { o.flow };
            assert!(matches!(&r, Ok(x) if u8::from(x.exit_code) == o.code && flow_tag(&x.next_control_flow) == f_exp), "C02.script.return_consumed_other_flows_kept");
        }
    }
    // the Err values hold an io::Error / PathBuf: never dropped here
    std::mem::forget(r); std::mem::forget(shell); std::mem::forget(params);
}

//@proof {'props': ['C18', 'C16'], 'tier': 'quick', 'timeout': 900, 'uses': ['source_file'], 'bounds': 'parse outcome symbolic; run outcome arbitrary or Err; call type symbolic', 'desc': 'source_file: exactly one script frame is pushed before and popped after the run on every path, including an error from the run; the frame kind is the requested one; the result is returned unchanged'}
#[kani::proof]
#[kani::unwind(4)]
#[kani::stub(std::hash::RandomState::new, crate::vk_prelude::stub_random_state_new)]
#[kani::stub(std::time::SystemTime::now, crate::vk_prelude::stub_now)]
fn vk_c18_source_file_frame_pairing() {
    let mut shell: Sh = crate::Shell::default();
    let mut o = FOracle::new();
    let params = ExecutionParameters::default();
    let si = crate::SourceInfo::default();
    let src: bool = kani::any();
    let ct = if src { callstack::ScriptCallType::Source } else { callstack::ScriptCallType::Run };
    let r = t_source_file(&mut shell, FileTok { dir: false }, &si, std::iter::empty::<String>(), &params, ct, &mut o);
    kani::cover!(o.run_fails, "run_fails_frame_still_popped");
    assert!(o.parses == 1 && o.pushes == 1 && o.pops == 1 && o.runs == 1, "C18.source.push_run_pop_once_each");
    assert!(o.pushed_at < o.ran_at && o.ran_at < o.popped_at, "C18.source.run_strictly_inside_frame");
    assert!(o.push_kind_source == src, "C18.source.frame_kind_as_requested");
    assert!(r.is_err() == o.run_fails, "C18.source.result_unchanged");
    if let Ok(x) = &r { assert!(u8::from(x.exit_code) == o.code && flow_tag(&x.next_control_flow) == o.flow, "C18.source.result_unchanged"); }
    std::mem::forget(r); std::mem::forget(shell); std::mem::forget(params); std::mem::forget(si);
}
