/*@meta
{
 'package': 'brush-interactive',
 'host': 'brush-interactive/src/highlighting.rs',
 'stubs': ['transplants of Highlighter::append_span, skip_ahead, set_next_missing_kind, highlight_word_piece and highlight_program on a duck-typed highlighter: `spans` is a recorder that checks each pushed span against the tiling invariant, `input_line` an ASCII line of a given length',
           'brush_parser::tokenize_str_with_options -> oracle returning <= 2 tokens (operator / word, symbolic) at symbolic, in-order, in-range character offsets, or a tokenizer error',
           'brush_parser::word::parse -> oracle returning <= 2 pieces of symbolic kind at symbolic, in-order offsets inside the word, or a parse error', 'get_kind_for_word -> oracle (any kind)',
           'a nested piece / nested command substitution -> oracle implementing the induction hypothesis (a piece processed from a state that has not passed its start leaves the cursor at its end with the tiling intact)',
           'the names brush_parser::word::WordPiece / WordPieceWithSource / Token are light stand-ins defined inside the harness module'],
 'assumptions': ['the line is seen through a stand-in for `str` (char_indices / len / get) modelling ASCII text', 'the tokenizer / word parser offset contract: offsets are in order, non-overlapping and inside the enclosing range (their computation is outside: PEG + tokenizer)', 'ASCII lines (character index = byte index); multi-byte boundaries depend on the tokenizer\'s character offsets and are outside', 'line length 8, <= 2 tokens, <= 2 pieces per word'],
 'out_of_claim': ['the offsets the tokenizer and word::parse actually produce', 'multi-byte text', 'termination of the parsers', 'which kind a word gets (cosmetic)'],
}
@*/
/*@recipes
{
 'append_span': {'file': 'brush-interactive/src/highlighting.rs', 'start': r'fn append_span\(&mut self, kind: HighlightKind, range: std::ops::Range<usize>\)', 'mode': 'fn_body', 'self_to': 'this'},
 'skip_ahead': {'file': 'brush-interactive/src/highlighting.rs', 'start': r'fn skip_ahead\(&mut self, dest: usize\)', 'mode': 'fn_body', 'self_to': 'this',
        'rewrites': [[r'this\.append_span\(', r't_append_span(this, ', 1]]},
 'set_missing': {'file': 'brush-interactive/src/highlighting.rs', 'start': r'const fn set_next_missing_kind\(&mut self, kind: HighlightKind\)', 'mode': 'fn_body', 'self_to': 'this'},
 'word_piece': {'file': 'brush-interactive/src/highlighting.rs', 'start': r'fn highlight_word_piece\(', 'mode': 'fn_body', 'self_to': 'this',
        'rewrites': [[r'this\.append_span\(', r't_append_span(this, ', 4],
                     [r'this\.skip_ahead\(', r't_skip_ahead(this, ', 2],
                     [r'this\.set_next_missing_kind\(', r't_set_missing(this, ', 6],
                     [r'this\.highlight_word_piece\(subpiece, HighlightKind::Quoted, global_offset\)', r'__o.nested_piece(this, subpiece, global_offset)', 1],
                     [r'(?s)this\.highlight_program\(\s*command\.as_str\(\),\s*piece\.start \+ 1,?[^)]*\)', r'__o.nested_program(this, &command, piece.start + 1)', 1],
                     [r'this\.highlight_program\(command\.as_str\(\), piece\.start \+ 2[^)]*\)', r'__o.nested_program(this, &command, piece.start + 2)', 1]]},
 'token_step': {'file': 'brush-interactive/src/highlighting.rs', 'start': r'^\s*match token \{', 'mode': 'block',
        'rewrites': [[r'(?s)brush_parser::word::parse\(raw_word_text, &self\.shell\.parser_options\(\)\)', r'__o.parse_word(raw_word_text)', 1],
                     [r'(?s)self\.get_kind_for_word\(\s*w\.as_str\(\),\s*&token_range,\s*&mut saw_command_token,\s*\)', r'__o.kind(&token_range, &mut saw_command_token)', 1],
                     [r'self\.append_span\(', r't_append_span(this, ', 1],
                     [r'(?s)self\.highlight_word_piece\(\s*word_piece,\s*default_text_kind,\s*token_range\.start,\s*\)', r't_word_piece(this, word_piece, default_text_kind, token_range.start, __o)', 1]]},
 'program': {'file': 'brush-interactive/src/highlighting.rs', 'start': r'fn highlight_program\(&mut self, line: &str, global_offset: usize\)', 'mode': 'fn_body', 'self_to': 'this',
        'rewrites': [[r'(?s)brush_parser::tokenize_str_with_options\(\s*line,\s*&\(this\.shell\.parser_options\(\)\.tokenizer_options\(\)\),\s*\)', r'__o.tokenize(line)', 1],
                     [r'(?s)brush_parser::word::parse\(raw_word_text, &this\.shell\.parser_options\(\)\)', r'__o.parse_word(raw_word_text)', 1],
                     [r'(?s)this\.get_kind_for_word\(\s*w\.as_str\(\),\s*&token_range,\s*&mut saw_command_token,\s*\)', r'__o.kind(&token_range, &mut saw_command_token)', 1],
                     [r'this\.append_span\(', r't_append_span(this, ', 2],
                     [r'this\.skip_ahead\(', r't_skip_ahead(this, ', 1],
                     [r'(?s)this\.highlight_word_piece\(\s*word_piece,\s*default_text_kind,\s*token_range\.start,\s*\)', r'__o.piece_contract(this, word_piece, default_text_kind, token_range.start)', 1]]},
}
@*/
use super::{HighlightKind, HighlightSpan};
// the char->byte table of highlight_program is collected into a `Vec<usize>`: growing a real Vec from an iterator cost 8 minutes of
// CBMC time for a 6-byte line; the array-backed stand-in (capacity 6, so lines of <= 5 bytes in the whole-program harnesses) does not
use crate::vk_prelude::ArrVec as Vec;

// ---------------------------------------------------------------- light stand-ins for the parser types (shadow the extern crate name inside this module)
pub mod brush_parser {
    #[derive(Clone, Copy)]
    pub struct Loc { pub start: Pos, pub end: Pos }
    #[derive(Clone, Copy)]
    pub struct Pos { pub index: usize }
    #[derive(Clone, Copy)]
    pub struct W;
    impl W { pub fn as_str(&self) -> &str { "" } }
    #[derive(Clone, Copy)]
    pub enum Token { Operator(W, Loc), Word(W, Loc) }
    pub mod word {
        #[derive(Clone, Copy)]
        pub struct Txt { pub len: usize }
        impl Txt { pub fn as_str(&self) -> &str { "" } }
        #[derive(Clone, Copy)]
        pub struct Sub { pub n: usize, pub a: (usize, usize), pub b: (usize, usize) }
        #[derive(Clone, Copy)]
        pub struct SubPiece { pub start_index: usize, pub end_index: usize }
        pub struct SubIter { s: Sub, i: usize }
        impl Iterator for SubIter { type Item = SubPiece; fn next(&mut self) -> Option<SubPiece> { let i = self.i; self.i += 1; if i >= 2 { None } else if i >= self.s.n { None } else if i == 0 { Some(SubPiece { start_index: self.s.a.0, end_index: self.s.a.1 }) } else { Some(SubPiece { start_index: self.s.b.0, end_index: self.s.b.1 }) } } }
        impl IntoIterator for Sub { type Item = SubPiece; type IntoIter = SubIter; fn into_iter(self) -> SubIter { SubIter { s: self, i: 0 } } }
        #[derive(Clone, Copy)]
        pub enum WordPiece {
            Text(Txt), SingleQuotedText(Txt), AnsiCQuotedText(Txt), EscapeSequence(Txt), DoubleQuotedSequence(Sub), GettextDoubleQuotedSequence(Sub),
            ParameterExpansion(Txt), TildeExpansion(Txt), BackquotedCommandSubstitution(Txt), CommandSubstitution(Txt), ArithmeticExpression(Txt),
        }
        #[derive(Clone, Copy)]
        pub struct WordPieceWithSource { pub piece: WordPiece, pub start_index: usize, pub end_index: usize }
    }
}
use brush_parser::word::{Sub, SubPiece, Txt, WordPiece, WordPieceWithSource};
use brush_parser::{Loc, Pos, Token, W};

// NOTE: every stand-in iterator ends at a *concrete* index (i >= 2) before consulting its symbolic length: CBMC unrolls a loop whose
// exit depends on a symbolic value up to the unwind bound, which multiplied the 11-arm piece match 64 times (14 GB).
// ---------------------------------------------------------------- duck-typed highlighter
/// an ASCII line of `n` bytes seen through the slice of the `str` API highlight_program uses (character index = byte index)
pub struct LineStr { pub n: usize }
pub struct CharIdx { pub i: usize, pub n: usize }
impl Iterator for CharIdx { type Item = (usize, char); fn next(&mut self) -> Option<(usize, char)> { if self.i < self.n { let i = self.i; self.i += 1; Some((i, 'a')) } else { None } }
    // exact size hint: `collect()` then allocates once instead of growing the vector (realloc + memcpy with symbolic sizes)
    fn size_hint(&self) -> (usize, Option<usize>) { (self.n - self.i, Some(self.n - self.i)) } }
impl LineStr {
    pub fn char_indices(&self) -> CharIdx { CharIdx { i: 0, n: self.n } }
    pub fn len(&self) -> usize { self.n }
    /// a slice of the right *length* (the word parser oracle bounds its piece offsets by it)
    pub fn get(&self, r: std::ops::Range<usize>) -> Option<&str> { if r.start <= r.end && r.end <= self.n { Some(&"aaaaaaaaaaaaaaaa"[..r.end - r.start]) } else { None } }
}
#[derive(Debug)]
pub struct LineTok { pub len: usize }
impl LineTok { pub fn is_char_boundary(&self, i: usize) -> bool { i <= self.len } }
/// records spans and checks the tiling invariant incrementally: every span starts where the previous one ended and is non-empty
pub struct SpanRec { pub end: usize, pub count: u8, pub tiled: bool }
impl SpanRec { pub fn push(&mut self, s: HighlightSpan) { if !(s.range.start == self.end && s.range.end > s.range.start) { self.tiled = false; } self.end = s.range.end; self.count += 1; std::mem::forget(s); } }
pub struct Hl { pub input_line: LineTok, pub cursor: usize, pub spans: SpanRec, pub current_byte_index: usize, pub next_missing_kind: Option<HighlightKind> }

pub struct PieceList { pub n: usize, pub a: WordPieceWithSource, pub b: WordPieceWithSource, pub i: usize }
impl Iterator for PieceList { type Item = WordPieceWithSource; fn next(&mut self) -> Option<WordPieceWithSource> { let i = self.i; self.i += 1; if i >= 2 { None } else if i >= self.n { None } else if i == 0 { Some(self.a) } else { Some(self.b) } } }
pub struct TokenList { pub n: usize, pub a: Token, pub b: Token, pub i: usize }
impl Iterator for TokenList { type Item = Token; fn next(&mut self) -> Option<Token> { let i = self.i; self.i += 1; if i >= 2 { None } else if i >= self.n { None } else if i == 0 { Some(self.a) } else { Some(self.b) } } }

pub struct HOracle { pub tok_err: bool, pub ntok: usize, pub t: [(bool, usize, usize); 2], pub parse_err: [bool; 2], pub np: [usize; 2], pub p: [[(u8, usize, usize); 2]; 2], pub words_parsed: usize, pub kinds: u8, pub nested_ok: bool }
fn any_kind() -> HighlightKind { match kani::any::<u8>() % 4 { 0 => HighlightKind::Default, 1 => HighlightKind::Keyword, 2 => HighlightKind::Builtin, _ => HighlightKind::Assignment } }
fn piece_of(kind: u8, s: usize, e: usize) -> WordPieceWithSource {
    let t = Txt { len: if e >= s + 3 { e - s - 3 } else { 0 } };
    let inner = Sub { n: 0, a: (0, 0), b: (0, 0) };
    let p = match kind {
        0 => WordPiece::Text(t), 1 => WordPiece::SingleQuotedText(t), 2 => WordPiece::AnsiCQuotedText(t), 3 => WordPiece::EscapeSequence(t),
        4 => WordPiece::DoubleQuotedSequence(inner), 5 => WordPiece::GettextDoubleQuotedSequence(inner), 6 => WordPiece::ParameterExpansion(t), 7 => WordPiece::TildeExpansion(t),
        8 => WordPiece::BackquotedCommandSubstitution(t), 9 => WordPiece::CommandSubstitution(t), _ => WordPiece::ArithmeticExpression(t),
    };
    WordPieceWithSource { piece: p, start_index: s, end_index: e }
}
impl HOracle {
    fn tokenize(&mut self, _line: &LineStr) -> Result<TokenList, ()> {
        if self.tok_err { return Err(()); }
        let mk = |(op, s, e): (bool, usize, usize)| { let l = Loc { start: Pos { index: s }, end: Pos { index: e } }; if op { Token::Operator(W, l) } else { Token::Word(W, l) } };
        Ok(TokenList { n: self.ntok, a: mk(self.t[0]), b: mk(self.t[1]), i: 0 })
    }
    fn parse_word(&mut self, raw: &str) -> Result<PieceList, ()> {
        let w = self.words_parsed; kani::assume(w < 2); self.words_parsed += 1;
        if self.parse_err[w] { return Err(()); }
        // the word parser's offset contract: pieces in order, non-overlapping, inside the text it was given
        let (a, b, c, d): (usize, usize, usize, usize) = (kani::any(), kani::any(), kani::any(), kani::any());
        kani::assume(a <= b && b <= c && c <= d && d <= raw.len());
        Ok(PieceList { n: self.np[w], a: piece_of(self.p[w][0].0, a, b), b: piece_of(self.p[w][1].0, c, d), i: 0 })
    }
    fn kind(&mut self, _r: &std::ops::Range<usize>, saw: &mut bool) -> HighlightKind { *saw = true; self.kinds += 1; any_kind() }
    /// induction hypothesis for a nested piece of a quoted sequence
    fn nested_piece(&mut self, hl: &mut Hl, sp: SubPiece, global_offset: usize) {
        if hl.current_byte_index > global_offset + sp.start_index { self.nested_ok = false; }
        t_skip_ahead(hl, global_offset + sp.start_index);
        t_append_span(hl, HighlightKind::Quoted, (global_offset + sp.start_index)..(global_offset + sp.end_index));
    }
    /// the contract of highlight_word_piece established by vk_c19_word_piece_step (used by the whole-program harnesses instead of inlining
    /// the 11-arm transplant at every loop position): from a state that has not passed the piece's start, the gap before the piece and
    /// the piece itself are covered and the cursor ends at the piece's end
    fn piece_contract(&mut self, hl: &mut Hl, wp: WordPieceWithSource, kind: HighlightKind, global_offset: usize) {
        if hl.current_byte_index > global_offset + wp.start_index { self.nested_ok = false; }
        t_skip_ahead(hl, global_offset + wp.start_index);
        t_append_span(hl, kind, (global_offset + wp.start_index)..(global_offset + wp.end_index));
    }
    /// induction hypothesis for a nested program (command substitution body of `len` bytes starting at `offset`)
    fn nested_program(&mut self, hl: &mut Hl, cmd: &Txt, offset: usize) {
        if hl.current_byte_index > offset { self.nested_ok = false; }
        t_skip_ahead(hl, offset + cmd.len);
    }
}

fn t_append_span(this: &mut Hl, kind: HighlightKind, range: std::ops::Range<usize>) {
/*@LIFT append_span*/
}
fn t_skip_ahead(this: &mut Hl, dest: usize) {
/*@LIFT skip_ahead*/
}
fn t_set_missing(this: &mut Hl, kind: HighlightKind) {
/*@LIFT set_missing*/
}
fn t_word_piece(this: &mut Hl, word_piece: WordPieceWithSource, default_text_kind: HighlightKind, global_offset: usize, __o: &mut HOracle) {
/*@LIFT word_piece*/
}
/// the body of the token loop of highlight_program (`match token {...}`), with the char->byte table of an ASCII line (identity, clamped)
fn t_token_step(this: &mut Hl, token: Token, line: &LineStr, global_offset: usize, __o: &mut HOracle) {
    let mut saw_command_token = false;
    let byte_offset = |char_offset: usize| if char_offset <= line.len() { char_offset } else { line.len() };
/*@LIFT token_step*/
}
fn t_program(this: &mut Hl, line: &LineStr, global_offset: usize, __o: &mut HOracle) {
/*@LIFT program*/
}

fn fresh(len: usize) -> Hl { Hl { input_line: LineTok { len }, cursor: 0, spans: SpanRec { end: 0, count: 0, tiled: true }, current_byte_index: 0, next_missing_kind: None } }
fn blank_oracle() -> HOracle { HOracle { tok_err: false, ntok: 0, t: [(false, 0, 0); 2], parse_err: [false; 2], np: [0; 2], p: [[(0, 0, 0); 2]; 2], words_parsed: 0, kinds: 0, nested_ok: true } }

//@proof {'props': ['C19'], 'tier': 'quick', 'setup': True, 'timeout': 900, 'uses': ['append_span', 'skip_ahead', 'set_missing', 'word_piece'], 'bounds': 'one word piece of symbolic kind (11 kinds) at a symbolic range [s, e) inside a 16-byte line, processed from an arbitrary tiled state whose cursor has not passed s; quoted sequences with 0..2 nested pieces at symbolic in-order offsets', 'desc': 'one inductive step of the tiling invariant: after highlight_word_piece the spans still tile [0, cursor) with non-empty contiguous spans and the cursor is exactly at the end of the piece'}
#[kani::proof]
#[kani::unwind(4)]
fn vk_c19_word_piece_step() {
    let cur: usize = kani::any(); let g: usize = kani::any(); let s: usize = kani::any(); let e: usize = kani::any();
    kani::assume(g <= 4 && s <= e && e <= 12 && cur <= g + s);
    let mut hl = fresh(16);
    hl.current_byte_index = cur; hl.spans.end = cur;
    if kani::any() { hl.next_missing_kind = Some(HighlightKind::Quoted); }
    let kind: u8 = kani::any(); kani::assume(kind < 11);
    let mut wp = piece_of(kind, s, e);
    // quoted sequences: 0..2 nested pieces, in order, inside the quotes
    let (n, a0, a1, b0, b1): (usize, usize, usize, usize, usize) = (kani::any(), kani::any(), kani::any(), kani::any(), kani::any());
    kani::assume(n <= 2 && s <= a0 && a0 <= a1 && a1 <= b0 && b0 <= b1 && b1 <= e);
    if kind == 4 { wp.piece = WordPiece::DoubleQuotedSequence(Sub { n, a: (a0, a1), b: (b0, b1) }); }
    if kind == 5 { wp.piece = WordPiece::GettextDoubleQuotedSequence(Sub { n, a: (a0, a1), b: (b0, b1) }); }
    // command substitutions: `$(` + body + `)` / backquotes: the body lies inside the piece
    if kind == 8 { kani::assume(e >= s + 2); wp.piece = WordPiece::BackquotedCommandSubstitution(Txt { len: e - s - 2 }); }
    if kind == 9 { kani::assume(e >= s + 3); wp.piece = WordPiece::CommandSubstitution(Txt { len: e - s - 3 }); }
    let mut o = blank_oracle();
    t_word_piece(&mut hl, wp, any_kind(), g, &mut o);
    kani::cover!(kind == 4 && n == 2 && a0 > s && b1 < e, "double_quoted_with_two_inner_pieces_and_gaps");
    kani::cover!(kind == 9 && cur < g + s, "command_substitution_after_a_gap");
    kani::cover!(kind == 0 && s == e, "empty_text_piece");
    assert!(o.nested_ok, "C19.piece.nested_parts_visited_in_order");
    assert!(hl.spans.tiled, "C19.piece.spans_contiguous_ordered_non_empty");
    assert!(hl.current_byte_index == g + e && hl.spans.end == hl.current_byte_index, "C19.piece.cursor_at_end_of_piece_and_everything_before_it_covered");
}

fn leaf_kind(k: u8) -> u8 { match k { 0 => 0, 1 => 1, _ => 6 } }   // Text, SingleQuotedText, ParameterExpansion

/// `max_tok` tokens, `max_pieces` leaf pieces per word
fn program_harness(max_tok: usize, max_pieces: usize) {
    let line = LineStr { n: 5 };
    let mut hl = fresh(5);
    let mut o = blank_oracle();
    o.tok_err = kani::any();
    o.ntok = kani::any(); kani::assume(o.ntok <= max_tok);
    let (s0, e0, s1, e1): (usize, usize, usize, usize) = (kani::any(), kani::any(), kani::any(), kani::any());
    kani::assume(s0 <= e0 && e0 <= s1 && s1 <= e1 && e1 <= 5);
    o.t = [(kani::any(), s0, e0), (kani::any(), s1, e1)];
    o.parse_err = [kani::any(), kani::any()];
    let mut w = 0;
    while w < max_tok {
        o.np[w] = kani::any(); kani::assume(o.np[w] <= max_pieces);
        // pieces are plain text here (concrete kind): what each of the 11 kinds does to the cursor is decided by vk_c19_word_piece_step,
        // whose post-condition (cursor at the end of the piece, tiling intact) is all this loop relies on; offsets are chosen by the oracle
        o.p[w] = [(0, 0, 0), (0, 0, 0)];
        w += 1;
    }
    t_program(&mut hl, &line, 0, &mut o);
    kani::cover!(!o.tok_err && o.ntok == max_tok && !o.t[0].0 && s0 > 0 && e0 < 5, "word_with_gaps_around_it");
    kani::cover!(o.tok_err, "tokenizer_error");
    kani::cover!(!o.tok_err && o.ntok == 0, "blank_or_comment_line");
    assert!(o.nested_ok, "C19.program.pieces_visited_in_order");
    assert!(hl.spans.tiled, "C19.program.spans_contiguous_ordered_non_empty");
    assert!(hl.spans.end == 5 && hl.current_byte_index == 5, "C19.program.spans_cover_the_whole_line");
    assert!(hl.spans.count >= 1, "C19.program.at_least_one_span");
}
fn any_below3() -> u8 { let v: u8 = kani::any(); kani::assume(v < 3); v }

//@proof {'props': ['C19'], 'tier': 'quick', 'timeout': 900, 'uses': ['append_span', 'skip_ahead', 'set_missing', 'program'], 'bounds': 'a 5-byte ASCII line; tokenizer error, or 0..1 token (operator / word) at a symbolic in-range character range; the word: parse error or 0..2 text pieces at symbolic in-order offsets inside the word (the other piece kinds: vk_c19_word_piece_step)', 'desc': 'highlight_program on a whole line with one token: whatever the token and piece layout (within the offset contract), the spans are ordered, contiguous, non-empty and cover exactly [0, len) - rendering the spans reproduces the line; a tokenizer error yields one span over the whole line'}
#[kani::proof]
#[kani::unwind(8)]
fn vk_c19_program_one_token() { program_harness(1, 2); }

//@proof {'props': ['C19'], 'tier': 'quick', 'timeout': 900, 'uses': ['append_span', 'skip_ahead', 'set_missing', 'program'], 'bounds': 'a 5-byte ASCII line; 0..2 tokens at symbolic in-order ranges; each word: parse error or 0..1 text piece', 'desc': 'highlight_program with two tokens: gaps before, between and after the tokens are filled; coverage of [0, len) as above'}
#[kani::proof]
#[kani::unwind(8)]
fn vk_c19_program_two_tokens() { program_harness(2, 1); }

//@proof {'props': ['C19'], 'tier': 'quick', 'timeout': 900, 'uses': ['append_span', 'skip_ahead', 'set_missing', 'word_piece', 'token_step'], 'bounds': 'one token (operator or word, symbolic) at a symbolic character range inside a 12-byte ASCII line, processed from an arbitrary tiled state whose cursor has not passed its start; the word: parse error or 0..2 text pieces at in-order offsets inside it', 'desc': 'one iteration of the token loop of highlight_program: the spans stay contiguous, ordered and non-empty and the cursor never moves past the end of the token (an operator or a fully parsed word leaves it exactly there; a word that does not parse is left to the next gap filler)'}
#[kani::proof]
#[kani::unwind(5)]
fn vk_c19_token_step() {
    let line = LineStr { n: 12 };
    let (cur, g, s, e): (usize, usize, usize, usize) = (kani::any(), kani::any(), kani::any(), kani::any());
    kani::assume(g <= 2 && s <= e && e <= 12 && cur <= g + s);
    let mut hl = fresh(14);
    hl.current_byte_index = cur; hl.spans.end = cur;
    let mut o = blank_oracle();
    o.parse_err = [kani::any(), false];
    o.np[0] = kani::any(); kani::assume(o.np[0] <= 2);
    let is_op: bool = kani::any();
    let l = Loc { start: Pos { index: s }, end: Pos { index: e } };
    let token = if is_op { Token::Operator(W, l) } else { Token::Word(W, l) };
    t_token_step(&mut hl, token, &line, g, &mut o);
    kani::cover!(!is_op && !o.parse_err[0] && o.np[0] == 2, "word_with_two_pieces");
    kani::cover!(is_op && cur < g + s, "operator_after_a_gap");
    assert!(hl.spans.tiled, "C19.token.spans_contiguous_ordered_non_empty");
    assert!(hl.spans.end == hl.current_byte_index, "C19.token.everything_before_the_cursor_is_covered");
    assert!(hl.current_byte_index <= g + e && hl.current_byte_index >= cur, "C19.token.cursor_monotone_and_within_the_token");
    if is_op && s < e { assert!(hl.current_byte_index == g + e, "C19.token.operator_span_ends_at_token_end"); }
}

//@proof {'props': ['C19'], 'tier': 'quick', 'timeout': 900, 'uses': ['append_span', 'skip_ahead', 'program'], 'bounds': 'a 5-byte ASCII line; the tokenizer fails, or finds no token (blank / comment line)', 'desc': 'the frame of highlight_program: with no tokens the whole line is one gap span; with a tokenizer error it is one default span; in both cases [0, len) is covered exactly (the token loop itself: vk_c19_token_step; whole-line runs with tokens: vk_c19_program_one_token / two_tokens)'}
#[kani::proof]
#[kani::unwind(8)]
fn vk_c19_program_frame() {
    let line = LineStr { n: 5 };
    let mut hl = fresh(5);
    let mut o = blank_oracle();
    o.tok_err = kani::any();
    o.ntok = 0;
    t_program(&mut hl, &line, 0, &mut o);
    kani::cover!(o.tok_err, "tokenizer_error");
    kani::cover!(!o.tok_err, "no_tokens");
    assert!(hl.spans.tiled && hl.spans.count == 1, "C19.frame.one_span");
    assert!(hl.spans.end == 5 && hl.current_byte_index == 5, "C19.frame.covers_the_whole_line");
}
