/*@meta
{
 'package': 'brush-interactive',
 'host': 'brush-interactive/src/highlighting.rs',
 'stubs': ['transplants of highlight_command, Highlighter::new, append_span, floor_char_boundary, skip_ahead, set_next_missing_kind, highlight_word_piece and highlight_program on a duck-typed highlighter: `spans` is a recorder that checks each pushed span against the tiling invariant (starts where the previous one ended, non-empty, inside the line, both ends on character boundaries); `input_line` is a line of symbolic length whose character boundaries are a symbolic bitmap (multi-byte text)',
           'brush_parser::tokenize_str_with_options -> oracle returning <= 2 tokens (operator / word, symbolic) at ARBITRARY character offsets (any order, overlapping, out of range), or a tokenizer error',
           'brush_parser::word::parse -> oracle returning <= 2 pieces of symbolic kind at ARBITRARY offsets, or a parse error', 'get_kind_for_word -> oracle (any kind)',
           'a nested piece / nested command substitution / a word piece inside the whole-program harnesses -> oracle making arbitrary append_span / skip_ahead calls (justified by vk_c19_append_span_step: every call preserves the invariant, so any sequence of calls does)',
           'the names brush_parser::word::WordPiece / WordPieceWithSource / Token are light stand-ins defined inside the harness module'],
 'assumptions': ['whole-line harnesses use append_span through the post-condition proved by vk_c19_append_span_step (compositional)', 'offsets and lengths are below 2^40 (no usize overflow when a nested offset is added to its base)', 'input line <= 8 bytes in the step harnesses, 5 bytes in the whole-program harnesses; <= 2 tokens, <= 2 pieces per word', 'no assumption on what the tokenizer and the word parser return'],
 'out_of_claim': ['termination / panics inside the tokenizer and the word parser themselves (PEG + hand-written tokenizer over strings)', 'which kind (colour) a range gets', 'lines longer than the bounds (the invariant is inductive in the number of calls, the line length bounds the boundary bitmap only)'],
}
@*/
/*@recipes
{
 'command': {'file': 'brush-interactive/src/highlighting.rs', 'start': r'pub fn highlight_command<\'a>\(', 'mode': 'fn_body',
        'rewrites': [[r'Highlighter::new\(shell, line, cursor\)', r't_new((), line.tok(), cursor)', 1],
                     [r'highlighter\.highlight_program\(line, 0\)', r't_program(&mut highlighter, line, 0, __o)', 1],
                     [r'Highlighted \{', r'Done {', 1]]},
 'new': {'file': 'brush-interactive/src/highlighting.rs', 'start': r'const fn new\(shell: &\'a brush_core::Shell<SE>, input_line: &\'a str, cursor: usize\) -> Self', 'mode': 'fn_body',
        'rewrites': [[r'Self \{', r'Hl { contract: true,', 1], [r'Vec::new\(\)', r'SpanRec::new(input_line)', 1]]},
 'append_span': {'file': 'brush-interactive/src/highlighting.rs', 'start': r'fn append_span\(&mut self, kind: HighlightKind, range: std::ops::Range<usize>\)', 'mode': 'fn_body', 'self_to': 'this',
        'rewrites': [[r'this\s*\.floor_char_boundary\(', r't_floor(this, ', 0]]},
 'floor': {'file': 'brush-interactive/src/highlighting.rs', 'start': r'fn floor_char_boundary\(&self, index: usize\) -> usize', 'mode': 'fn_body', 'self_to': 'this', 'if_absent': 'index'},
 'skip_ahead': {'file': 'brush-interactive/src/highlighting.rs', 'start': r'fn skip_ahead\(&mut self, dest: usize\)', 'mode': 'fn_body', 'self_to': 'this',
        'rewrites': [[r'this\.append_span\(', r't_append_span(this, ', 0]]},
 'set_missing': {'file': 'brush-interactive/src/highlighting.rs', 'start': r'const fn set_next_missing_kind\(&mut self, kind: HighlightKind\)', 'mode': 'fn_body', 'self_to': 'this'},
 'word_piece': {'file': 'brush-interactive/src/highlighting.rs', 'start': r'fn highlight_word_piece\(', 'mode': 'fn_body', 'self_to': 'this',
        'rewrites': [[r'this\.append_span\(', r't_append_span(this, ', 0],
                     [r'this\.skip_ahead\(', r't_skip_ahead(this, ', 0],
                     [r'this\.set_next_missing_kind\(', r't_set_missing(this, ', 0],
                     [r'this\.highlight_word_piece\(subpiece, HighlightKind::Quoted, global_offset\)', r'__o.anything(this)', 1],
                     [r'(?s)this\.highlight_program\(\s*command\.as_str\(\),\s*piece\.start \+ 1,?[^)]*\)', r'__o.anything(this)', 1],
                     [r'this\.highlight_program\(command\.as_str\(\), piece\.start \+ 2[^)]*\)', r'__o.anything(this)', 1]]},
 'token_step': {'file': 'brush-interactive/src/highlighting.rs', 'start': r'^\s*match token \{', 'mode': 'block',
        'rewrites': [[r'(?s)brush_parser::word::parse\(raw_word_text, &self\.shell\.parser_options\(\)\)', r'__o.parse_word(raw_word_text)', 1],
                     [r'(?s)self\.get_kind_for_word\(\s*w\.as_str\(\),\s*&token_range,\s*&mut saw_command_token,?\s*\)', r'__o.kind(&token_range, &mut saw_command_token)', 1],
                     [r'self\.append_span\(', r't_append_span(this, ', 0],
                     [r'(?s)self\.highlight_word_piece\(\s*word_piece,\s*default_text_kind,\s*token_range\.start,?\s*\)', r't_word_piece(this, word_piece, default_text_kind, token_range.start, __o)', 1]]},
 'program': {'file': 'brush-interactive/src/highlighting.rs', 'start': r'fn highlight_program\(&mut self, line: &str, global_offset: usize\)', 'mode': 'fn_body', 'self_to': 'this',
        'rewrites': [[r'(?s)brush_parser::tokenize_str_with_options\(\s*line,\s*&\(this\.shell\.parser_options\(\)\.tokenizer_options\(\)\),\s*\)', r'__o.tokenize(line)', 1],
                     [r'(?s)brush_parser::word::parse\(raw_word_text, &this\.shell\.parser_options\(\)\)', r'__o.parse_word(raw_word_text)', 1],
                     [r'(?s)this\.get_kind_for_word\(\s*w\.as_str\(\),\s*&token_range,\s*&mut saw_command_token,?\s*\)', r'__o.kind(&token_range, &mut saw_command_token)', 1],
                     [r'this\.append_span\(', r't_append_span(this, ', 0],
                     [r'this\.skip_ahead\(', r't_skip_ahead(this, ', 0],
                     [r'(?s)this\.highlight_word_piece\(\s*word_piece,\s*default_text_kind,\s*token_range\.start,?\s*\)', r'__o.anything(this)', 1]]},
}
@*/
use super::{HighlightKind, HighlightSpan};
// the char->byte table of highlight_program is collected into a `Vec<usize>`: growing a real Vec from an iterator cost 8 minutes of
// CBMC time for a 6-byte line; the array-backed stand-in (capacity 6, so lines of <= 5 bytes in the whole-program harnesses) does not
use crate::vk_prelude::ArrVec as Vec;

// ---------------------------------------------------------------- light stand-ins for the parser types (shadow the extern crate name inside this module)
pub mod brush_parser {
    #[derive(Clone, Copy)]
    pub struct Loc { pub start: Pos, pub end: Pos }
    #[derive(Clone, Copy)]
    pub struct Pos { pub index: usize }
    #[derive(Clone, Copy)]
    pub struct W;
    impl W { pub fn as_str(&self) -> &str { "" } }
    #[derive(Clone, Copy)]
    pub enum Token { Operator(W, Loc), Word(W, Loc) }
    impl Token { pub fn location(&self) -> &Loc { match self { Token::Operator(_, l) | Token::Word(_, l) => l } } }
    pub mod word {
        #[derive(Clone, Copy)]
        pub struct Txt { pub len: usize }
        impl Txt { pub fn as_str(&self) -> &str { "" } }
        #[derive(Clone, Copy)]
        pub struct Sub { pub n: usize, pub a: (usize, usize), pub b: (usize, usize) }
        #[derive(Clone, Copy)]
        pub struct SubPiece { pub start_index: usize, pub end_index: usize }
        pub struct SubIter { s: Sub, i: usize }
        impl Iterator for SubIter { type Item = SubPiece; fn next(&mut self) -> Option<SubPiece> { let i = self.i; self.i += 1; if i >= 2 { None } else if i >= self.s.n { None } else if i == 0 { Some(SubPiece { start_index: self.s.a.0, end_index: self.s.a.1 }) } else { Some(SubPiece { start_index: self.s.b.0, end_index: self.s.b.1 }) } } }
        impl IntoIterator for Sub { type Item = SubPiece; type IntoIter = SubIter; fn into_iter(self) -> SubIter { SubIter { s: self, i: 0 } } }
        #[derive(Clone, Copy)]
        pub enum WordPiece {
            Text(Txt), SingleQuotedText(Txt), AnsiCQuotedText(Txt), EscapeSequence(Txt), DoubleQuotedSequence(Sub), GettextDoubleQuotedSequence(Sub),
            ParameterExpansion(Txt), TildeExpansion(Txt), BackquotedCommandSubstitution(Txt), CommandSubstitution(Txt), ArithmeticExpression(Txt),
        }
        #[derive(Clone, Copy)]
        pub struct WordPieceWithSource { pub piece: WordPiece, pub start_index: usize, pub end_index: usize }
    }
}
use brush_parser::word::{Sub, SubPiece, Txt, WordPiece, WordPieceWithSource};
use brush_parser::{Loc, Pos, Token, W};

// NOTE: every stand-in iterator ends at a *concrete* index before consulting its symbolic length: CBMC unrolls a loop whose
// exit depends on a symbolic value up to the unwind bound, which multiplied the 11-arm piece match 64 times (14 GB).
// ---------------------------------------------------------------- duck-typed highlighter
pub const MAXN: usize = 8;
/// a line of `n` bytes whose character boundaries are `b[0..=n]` (b[0] and b[n] hold; at most 3 continuation bytes in a row: UTF-8)
#[derive(Clone, Copy, Debug)]
pub struct LineTok { pub n: usize, pub b: [bool; MAXN + 1] }
impl LineTok {
    pub fn is_char_boundary(&self, i: usize) -> bool { i <= self.n && self.b[i] }
    pub fn len(&self) -> usize { self.n }
}
fn any_line(max: usize) -> LineTok {
    let n: usize = kani::any(); kani::assume(n <= max);
    let mut b: [bool; MAXN + 1] = kani::any();
    b[0] = true;
    let mut i = 0; let mut run = 0u8;
    while i <= MAXN { if i == n { b[i] = true; } if i > n { b[i] = false; } if i <= n { if b[i] { run = 0; } else { run += 1; kani::assume(run <= 3); } } i += 1; }
    LineTok { n, b }
}
/// the same line seen through the slice of the `str` API highlight_program uses
pub struct LineStr { pub l: LineTok }
pub struct CharIdx { pub i: usize, pub l: LineTok }
impl Iterator for CharIdx { type Item = (usize, char);
    fn next(&mut self) -> Option<(usize, char)> {
        // skip continuation bytes (at most 3 in a row)
        let mut k = 0; while k < 3 { if self.i < self.l.n && !self.l.b[self.i] { self.i += 1; } k += 1; }
        if self.i < self.l.n { let i = self.i; self.i += 1; Some((i, 'a')) } else { None } } }
impl LineStr {
    pub fn tok(&self) -> LineTok { self.l }
    pub fn char_indices(&self) -> CharIdx { CharIdx { i: 0, l: self.l } }
    pub fn len(&self) -> usize { self.l.n }
    pub fn get(&self, r: std::ops::Range<usize>) -> Option<&str> { if r.start <= r.end && self.l.is_char_boundary(r.start) && self.l.is_char_boundary(r.end) { Some("") } else { None } }
}
/// records spans and checks the tiling invariant incrementally: every span starts where the previous one ended, is non-empty, lies inside
/// the line and has both ends on character boundaries
pub struct SpanRec { pub end: usize, pub count: u8, pub tiled: bool, pub l: LineTok }
impl SpanRec {
    pub fn new(l: LineTok) -> Self { SpanRec { end: 0, count: 0, tiled: true, l } }
    pub fn push(&mut self, s: HighlightSpan) {
        if !(s.range.start == self.end && s.range.end > s.range.start && s.range.end <= self.l.n && self.l.is_char_boundary(s.range.start) && self.l.is_char_boundary(s.range.end)) { self.tiled = false; }
        self.end = s.range.end; if self.count < 200 { self.count += 1; } std::mem::forget(s);
    }
}
pub struct Hl { pub contract: bool, pub shell: (), pub input_line: LineTok, pub cursor: usize, pub spans: SpanRec, pub current_byte_index: usize, pub next_missing_kind: Option<HighlightKind> }
/// what highlight_command returns
pub struct Done<'a> { pub line: &'a LineStr, pub spans: SpanRec }

pub struct PieceList { pub n: usize, pub a: WordPieceWithSource, pub b: WordPieceWithSource, pub i: usize }
impl Iterator for PieceList { type Item = WordPieceWithSource; fn next(&mut self) -> Option<WordPieceWithSource> { let i = self.i; self.i += 1; if i >= 2 { None } else if i >= self.n { None } else if i == 0 { Some(self.a) } else { Some(self.b) } } }
pub struct TokenList { pub n: usize, pub a: Token, pub b: Token, pub i: usize }
impl Iterator for TokenList { type Item = Token; fn next(&mut self) -> Option<Token> { let i = self.i; self.i += 1; if i >= 2 { None } else if i >= self.n { None } else if i == 0 { Some(self.a) } else { Some(self.b) } } }
impl TokenList { pub fn sort_by_key<K: Ord, F: FnMut(&Token) -> K>(&mut self, mut f: F) { if self.n >= 2 && f(&self.b) < f(&self.a) { std::mem::swap(&mut self.a, &mut self.b); } } }

pub const BIG: usize = 1 << 40;
fn any_off() -> usize { let v: usize = kani::any(); kani::assume(v <= BIG); v }
pub struct HOracle { pub tok_err: bool, pub ntok: usize, pub t: [(bool, usize, usize); 2], pub parse_err: [bool; 2], pub np: [usize; 2], pub pk: [u8; 2], pub words_parsed: usize, pub kinds: u8 }
fn any_kind() -> HighlightKind { match kani::any::<u8>() % 4 { 0 => HighlightKind::Default, 1 => HighlightKind::Keyword, 2 => HighlightKind::Builtin, _ => HighlightKind::Assignment } }
fn piece_of(kind: u8, s: usize, e: usize) -> WordPieceWithSource {
    let t = Txt { len: 0 };
    let inner = Sub { n: 0, a: (0, 0), b: (0, 0) };
    let p = match kind {
        0 => WordPiece::Text(t), 1 => WordPiece::SingleQuotedText(t), 2 => WordPiece::AnsiCQuotedText(t), 3 => WordPiece::EscapeSequence(t),
        4 => WordPiece::DoubleQuotedSequence(inner), 5 => WordPiece::GettextDoubleQuotedSequence(inner), 6 => WordPiece::ParameterExpansion(t), 7 => WordPiece::TildeExpansion(t),
        8 => WordPiece::BackquotedCommandSubstitution(t), 9 => WordPiece::CommandSubstitution(t), _ => WordPiece::ArithmeticExpression(t),
    };
    WordPieceWithSource { piece: p, start_index: s, end_index: e }
}
impl HOracle {
    fn tokenize(&mut self, _line: &LineStr) -> Result<TokenList, ()> {
        if self.tok_err { return Err(()); }
        let mk = |(op, s, e): (bool, usize, usize)| { let l = Loc { start: Pos { index: s }, end: Pos { index: e } }; if op { Token::Operator(W, l) } else { Token::Word(W, l) } };
        Ok(TokenList { n: self.ntok, a: mk(self.t[0]), b: mk(self.t[1]), i: 0 })
    }
    /// no contract: pieces anywhere
    fn parse_word(&mut self, _raw: &str) -> Result<PieceList, ()> {
        let w = self.words_parsed; kani::assume(w < 2); self.words_parsed += 1;
        if self.parse_err[w] { return Err(()); }
        Ok(PieceList { n: self.np[w], a: piece_of(self.pk[w], any_off(), any_off()), b: piece_of(self.pk[w], any_off(), any_off()), i: 0 })
    }
    fn kind(&mut self, _r: &std::ops::Range<usize>, saw: &mut bool) -> HighlightKind { *saw = true; if self.kinds < 200 { self.kinds += 1; } any_kind() }
    /// whatever a nested piece / nested program / word piece does, it does through append_span, skip_ahead and set_next_missing_kind
    /// (vk_c19_word_piece_step and vk_c19_token_step check that for the real text): model it as two arbitrary calls
    fn anything(&mut self, hl: &mut Hl) {
        if kani::any() { t_set_missing(hl, HighlightKind::Quoted); }
        if kani::any() { t_skip_ahead(hl, kani::any()); }
        if kani::any() { let (a, b): (usize, usize) = (kani::any(), kani::any()); t_append_span(hl, any_kind(), a..b); }
    }
}

fn t_new(shell: (), input_line: LineTok, cursor: usize) -> Hl {
/*@LIFT new*/
}
fn t_floor(this: &Hl, index: usize) -> usize {
/*@LIFT floor*/
}
/// the real text in the step harnesses; in the whole-line harnesses (`contract` set, a concrete flag) the post-condition that
/// vk_c19_append_span_step establishes for it: the cursor moves to some character boundary in [cursor, len] - to len if the range
/// reaches the end of the line - and what it passes over is covered by well-formed spans
fn t_append_span(this: &mut Hl, kind: HighlightKind, range: std::ops::Range<usize>) {
    if this.contract {
        let cur = this.current_byte_index;
        let to: usize = kani::any();
        kani::assume(cur <= to && to <= this.input_line.n && this.input_line.b[to]);
        kani::assume(range.end < this.input_line.n || to == this.input_line.n);
        if to > cur { this.spans.push(HighlightSpan::new(cur..to, kind)); }
        this.current_byte_index = to;
        return;
    }
    t_append_span_real(this, kind, range)
}
fn t_append_span_real(this: &mut Hl, kind: HighlightKind, range: std::ops::Range<usize>) {
/*@LIFT append_span*/
}
fn t_skip_ahead(this: &mut Hl, dest: usize) {
/*@LIFT skip_ahead*/
}
fn t_set_missing(this: &mut Hl, kind: HighlightKind) {
/*@LIFT set_missing*/
}
fn t_word_piece(this: &mut Hl, word_piece: WordPieceWithSource, default_text_kind: HighlightKind, global_offset: usize, __o: &mut HOracle) {
/*@LIFT word_piece*/
}
/// the body of the token loop of highlight_program (`match token {...}`); the char->byte table is any function into [0, len]
fn t_token_step(this: &mut Hl, token: Token, line: &LineStr, global_offset: usize, __o: &mut HOracle) {
    let mut saw_command_token = false;
    let byte_offset = |_char_offset: usize| { let v: usize = kani::any(); kani::assume(v <= line.len()); v };
/*@LIFT token_step*/
}
fn t_program(this: &mut Hl, line: &LineStr, global_offset: usize, __o: &mut HOracle) {
/*@LIFT program*/
}
fn t_command<'a>(shell: (), line: &'a LineStr, cursor: usize, __o: &mut HOracle) -> Done<'a> {
/*@LIFT command*/
}

fn blank_oracle() -> HOracle { HOracle { tok_err: false, ntok: 0, t: [(false, 0, 0); 2], parse_err: [false; 2], np: [0; 2], pk: [0; 2], words_parsed: 0, kinds: 0 } }
/// an arbitrary state satisfying the invariant: spans tile [0, cur), cur is a character boundary inside the line
fn any_state(l: LineTok, contract: bool) -> (Hl, usize) {
    let cur: usize = kani::any(); kani::assume(cur <= l.n && l.b[cur]);
    let mut hl = Hl { contract, shell: (), input_line: l, cursor: kani::any(), spans: SpanRec::new(l), current_byte_index: cur, next_missing_kind: None };
    hl.spans.end = cur;
    if kani::any() { hl.next_missing_kind = Some(HighlightKind::Quoted); }
    (hl, cur)
}
fn invariant(hl: &Hl, before: usize) -> bool {
    hl.spans.tiled && hl.spans.end == hl.current_byte_index && hl.current_byte_index >= before && hl.current_byte_index <= hl.input_line.n && hl.input_line.b[hl.current_byte_index]
}

//@proof {'props': ['C19'], 'tier': 'quick', 'setup': True, 'timeout': 900, 'uses': ['append_span', 'floor'], 'bounds': 'a line of 0..8 bytes with a symbolic character-boundary bitmap (multi-byte text); an arbitrary state whose spans tile [0, cur); ANY range start..end over the whole of usize (reversed, behind the cursor, past the end, inside a character)', 'desc': 'the one inductive step everything rests on: append_span keeps "the spans tile [0, cursor), in order, without gaps or overlaps, non-empty, on character boundaries, inside the line" whatever range it is given, never panics, never moves the cursor back; a range ending at or after the end of the line drives the cursor to the end (the closing skip_ahead therefore completes the cover); a well-formed range is kept as given'}
#[kani::proof]
#[kani::unwind(11)]
fn vk_c19_append_span_step() {
    let l = any_line(MAXN);
    let (mut hl, cur) = any_state(l, false);
    let (s, e): (usize, usize) = (kani::any(), kani::any());
    t_append_span(&mut hl, any_kind(), s..e);
    kani::cover!(s < cur && e > cur && e < l.n, "range_reaching_back_behind_the_cursor");
    kani::cover!(e < l.n && !l.b[e] && s < e, "range_ending_inside_a_character");
    kani::cover!(s > e, "reversed_range");
    kani::cover!(cur < s && s < e && e < l.n && l.b[s] && l.b[e], "well_formed_range_after_a_gap");
    assert!(hl.spans.tiled, "C19.append.spans_ordered_contiguous_non_overlapping_on_character_boundaries");
    assert!(invariant(&hl, cur), "C19.append.invariant_preserved_cursor_monotone");
    if e >= l.n { assert!(hl.current_byte_index == l.n, "C19.append.range_reaching_the_end_completes_the_cover"); }
    if cur <= s && s <= e && e <= l.n && l.b[s] && l.b[e] { assert!(hl.current_byte_index == e && hl.spans.count == (s > cur) as u8 + (e > s) as u8, "C19.append.well_formed_range_kept_as_given"); }
}

//@proof {'props': ['C19'], 'tier': 'quick', 'timeout': 900, 'uses': ['append_span', 'floor', 'skip_ahead', 'set_missing', 'word_piece'], 'bounds': 'one word piece of symbolic kind (11 kinds) at ARBITRARY offsets (< 2^40) relative to an arbitrary base, on a line of 0..8 bytes with symbolic character boundaries, from an arbitrary tiled state; nested pieces / nested programs make arbitrary span calls', 'desc': 'highlight_word_piece changes the span list only through append_span / skip_ahead, so it preserves the tiling invariant for every piece kind and every offset the word parser could produce; no arithmetic overflow, no panic'}
#[kani::proof]
#[kani::unwind(11)]
fn vk_c19_word_piece_step() {
    let l = any_line(MAXN);
    let (mut hl, cur) = any_state(l, false);
    let kind: u8 = kani::any(); kani::assume(kind < 11);
    let mut wp = piece_of(kind, any_off(), any_off());
    let n: usize = kani::any(); kani::assume(n <= 2);
    if kind == 4 { wp.piece = WordPiece::DoubleQuotedSequence(Sub { n, a: (any_off(), any_off()), b: (any_off(), any_off()) }); }
    if kind == 5 { wp.piece = WordPiece::GettextDoubleQuotedSequence(Sub { n, a: (any_off(), any_off()), b: (any_off(), any_off()) }); }
    let mut o = blank_oracle();
    t_word_piece(&mut hl, wp, any_kind(), any_off(), &mut o);
    kani::cover!(kind == 4 && n == 2, "double_quoted_with_two_inner_pieces");
    kani::cover!(kind == 9 && hl.current_byte_index > cur, "command_substitution_moving_the_cursor");
    assert!(invariant(&hl, cur), "C19.piece.tiling_invariant_preserved");
}

//@proof {'props': ['C19'], 'tier': 'quick', 'timeout': 900, 'uses': ['append_span', 'floor', 'skip_ahead', 'set_missing', 'word_piece', 'token_step'], 'bounds': 'one token (operator or word, symbolic) at ARBITRARY character offsets, base offset < 2^40, a 5-byte nested line and an input line of 0..8 bytes with symbolic boundaries, from an arbitrary tiled state; the word: parse error or 0..2 pieces of one symbolic kind at arbitrary offsets', 'desc': 'one iteration of the token loop of highlight_program preserves the tiling invariant for any token the tokenizer could deliver (out of order, overlapping, out of range)'}
#[kani::proof]
#[kani::unwind(11)]
fn vk_c19_token_step() {
    let l = any_line(MAXN);
    let line = LineStr { l: any_line(5) };
    let (mut hl, cur) = any_state(l, true);
    let mut o = blank_oracle();
    o.parse_err = [kani::any(), false];
    o.np[0] = kani::any(); kani::assume(o.np[0] <= 2);
    o.pk[0] = kani::any(); kani::assume(o.pk[0] < 11);
    let is_op: bool = kani::any();
    let loc = Loc { start: Pos { index: kani::any() }, end: Pos { index: kani::any() } };
    let token = if is_op { Token::Operator(W, loc) } else { Token::Word(W, loc) };
    t_token_step(&mut hl, token, &line, any_off(), &mut o);
    kani::cover!(!is_op && !o.parse_err[0] && o.np[0] == 2, "word_with_two_pieces");
    kani::cover!(is_op && hl.current_byte_index > cur, "operator_moving_the_cursor");
    assert!(invariant(&hl, cur), "C19.token.tiling_invariant_preserved");
}

/// highlight_command on a whole line: `max_tok` tokens anywhere
fn command_harness(max_tok: usize) {
    let line = LineStr { l: any_line(5) };
    let n = line.l.n;
    let mut o = blank_oracle();
    o.tok_err = kani::any();
    o.ntok = kani::any(); kani::assume(o.ntok <= max_tok);
    o.t = [(kani::any(), kani::any(), kani::any()), (kani::any(), kani::any(), kani::any())];
    o.parse_err = [kani::any(), kani::any()];
    o.np = [kani::any(), kani::any()]; kani::assume(o.np[0] <= 2 && o.np[1] <= 2);
    let done = t_command((), &line, kani::any(), &mut o);
    kani::cover!(!o.tok_err && o.ntok == max_tok && o.t[0].1 > 0 && o.t[0].2 < n, "token_with_gaps_around_it");
    kani::cover!(!o.tok_err && (max_tok < 2 || (o.ntok == 2 && o.t[1].1 < o.t[0].1)), "tokens_delivered_out_of_order");
    kani::cover!(o.tok_err, "tokenizer_error");
    kani::cover!(!o.tok_err && o.ntok == 0 && n == 5 && !line.l.b[1], "blank_or_comment_line_with_a_multibyte_character");
    assert!(done.spans.tiled, "C19.command.spans_ordered_contiguous_non_overlapping_on_character_boundaries");
    assert!(done.spans.end == n, "C19.command.spans_cover_every_byte_of_the_line");
    assert!(n == 0 || done.spans.count >= 1, "C19.command.at_least_one_span");
    assert!(std::ptr::eq(done.line, &line), "C19.command.result_is_paired_with_the_line_given");
}

//@proof {'props': ['C19'], 'tier': 'quick', 'timeout': 900, 'uses': ['command', 'new', 'append_span', 'floor', 'skip_ahead', 'set_missing', 'program'], 'bounds': 'a line of 0..5 bytes with symbolic character boundaries; tokenizer error, or 0..1 token (operator / word) at arbitrary character offsets; the word: parse error or 0..2 pieces doing arbitrary span calls; any cursor', 'desc': 'highlight_command end to end: starts from an empty span list at offset 0 on the line it was given, and whatever the tokenizer and the word parser return, the spans it hands back tile [0, len) exactly - ordered, contiguous, non-overlapping, non-empty, on character boundaries - so rendering them reproduces the line; no panic'}
#[kani::proof]
#[kani::unwind(11)]
fn vk_c19_command_one_token() { command_harness(1); }

//@proof {'props': ['C19'], 'tier': 'quick', 'timeout': 900, 'uses': ['command', 'new', 'append_span', 'floor', 'skip_ahead', 'set_missing', 'program'], 'bounds': 'as above with 0..2 tokens at arbitrary offsets: out of order (here-documents), overlapping, out of range', 'desc': 'highlight_command with two tokens in any order and position'}
#[kani::proof]
#[kani::unwind(11)]
fn vk_c19_command_two_tokens() { command_harness(2); }
