/*@meta
{
 'package': 'brush-parser',
 'host': 'brush-parser/src/arithmetic.rs',
 'direct': ['brush_parser::arithmetic::parse_shell_literal_number'],
 'stubs': [],
 'assumptions': ['literal text is 1..2 ASCII bytes (symbolic); radix any u64'],
 'out_of_claim': ['recognition of base#digits by the PEG rule; literals longer than 2 digits (wrap-around on overflow is exercised only through the loop body, not by value)'],
}
@*/
use super::*;

/// bash's digit alphabet (expr.c): 0-9, a-z = 10..35, A-Z = 36..61 (10..35 when base <= 36), @ = 62, _ = 63
fn digit_value(c: u8, radix: u64) -> Option<u64> {
    let v = if c >= b'0' && c <= b'9' { (c - b'0') as u64 }
        else if c >= b'a' && c <= b'z' { (c - b'a') as u64 + 10 }
        else if c >= b'A' && c <= b'Z' { if radix <= 36 { (c - b'A') as u64 + 10 } else { (c - b'A') as u64 + 36 } }
        else if c == b'@' && radix > 36 { 62 }
        else if c == b'_' && radix > 36 { 63 }
        else { return None; };
    if v < radix { Some(v) } else { None }
}

//@proof {'props': ['C07', 'C01'], 'tier': 'quick', 'timeout': 600, 'bounds': '2 symbolic ASCII bytes, radix any u64', 'desc': 'base#digits value: accepted iff 2 <= base <= 64 and every digit < base in bash\'s alphabet; value = d0*base + d1'}
#[kani::proof]
#[kani::unwind(4)]
fn vk_c07_radix_literal_2() {
    let radix: u64 = kani::any();
    let b: [u8; 2] = kani::any();
    kani::assume(b[0] < 0x80 && b[1] < 0x80);
    let s = std::str::from_utf8(&b).unwrap();
    let r = parse_shell_literal_number(s, radix);
    kani::cover!(radix == 64 && b[0] == b'_' && b[1] == b'@', "base64_top_digits");
    kani::cover!(radix == 36 && b[0] == b'Z', "base36_upper");
    let valid = radix >= 2 && radix <= 64;
    let d0 = digit_value(b[0], radix);
    let d1 = digit_value(b[1], radix);
    match (valid, d0, d1) {
        (true, Some(x), Some(y)) => { assert!(r == Ok((x * radix + y) as i64), "C07.radix.value"); }
        _ => { assert!(r.is_err(), "C07.radix.rejects"); }
    }
}

//@proof {'props': ['C07', 'C01'], 'tier': 'quick', 'timeout': 600, 'bounds': '1 symbolic ASCII byte, radix any u64', 'desc': 'single-digit base#d'}
#[kani::proof]
#[kani::unwind(3)]
fn vk_c07_radix_literal_1() {
    let radix: u64 = kani::any();
    let b: [u8; 1] = kani::any();
    kani::assume(b[0] < 0x80);
    let s = std::str::from_utf8(&b).unwrap();
    let r = parse_shell_literal_number(s, radix);
    kani::cover!(radix == 2 && b[0] == b'1', "binary_one");
    let valid = radix >= 2 && radix <= 64;
    match (valid, digit_value(b[0], radix)) {
        (true, Some(x)) => { assert!(r == Ok(x as i64), "C07.radix1.value"); }
        _ => { assert!(r.is_err(), "C07.radix1.rejects"); }
    }
}
