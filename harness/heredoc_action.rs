/*@meta
{
 'package': 'brush-parser',
 'host': 'brush-parser/src/parser/peg.rs',
 'stubs': ['the two action blocks of the PEG rule io_here (`<<-` and `<<`) lifted as text; the three matched tokens (opening tag, body, closing tag) are duck-typed tokens carrying an identity and a symbolic "contains a quote character" answer; `ast` inside the harness module is a light stand-in (Word::from records which token it was built from)'],
 'assumptions': ['whether a tag text contains a quote, double quote or backslash is an arbitrary boolean per token (the text itself is not modelled); the closing tag is what the tokenizer cut from the terminating line, so its answer is independent of the opening tag\'s'],
 'out_of_claim': ['the tokenizer\'s recognition of the body and of the terminating line', 'tab removal and the expansion of the body (expansion.rs)', 'here-strings'],
}
@*/
/*@recipes
{
 'dash': {'file': 'brush-parser/src/parser/peg.rs', 'start': r'specific_operator\("<<-"\) here_tag:here_tag\(\) doc:\[_\] closing_tag:here_tag\(\) ', 'mode': 'fn_body'},
 'plain': {'file': 'brush-parser/src/parser/peg.rs', 'start': r'specific_operator\("<<"\) here_tag:here_tag\(\) doc:\[_\] closing_tag:here_tag\(\) ', 'mode': 'fn_body'},
}
@*/
/// a matched token: identity + does its text contain one of ' " \
#[derive(Clone, Copy)]
pub struct Tok { pub id: u8, pub quoted: bool }
#[derive(Clone, Copy)]
pub struct TokStr { pub quoted: bool }
impl Tok { pub fn to_str(&self) -> TokStr { TokStr { quoted: self.quoted } } }
impl TokStr { pub fn contains<P>(&self, _chars: P) -> bool { self.quoted } }
pub mod ast {
    pub struct Word { pub from: u8 }
    impl From<&super::Tok> for Word { fn from(t: &super::Tok) -> Self { Word { from: t.id } } }
    pub struct IoHereDocument { pub remove_tabs: bool, pub requires_expansion: bool, pub here_end: Word, pub doc: Word }
}

#[allow(unused_variables)]
fn k_dash(here_tag: &Tok, doc: &Tok, closing_tag: &Tok) -> ast::IoHereDocument {
/*@LIFT dash*/
}
#[allow(unused_variables)]
fn k_plain(here_tag: &Tok, doc: &Tok, closing_tag: &Tok) -> ast::IoHereDocument {
/*@LIFT plain*/
}

//@proof {'props': ['C10'], 'tier': 'quick', 'timeout': 300, 'uses': ['dash', 'plain'], 'bounds': 'both here-document operators; quoting of the opening tag and of the closing tag independent symbolic booleans', 'desc': 'here-documents: the body is expanded iff no part of the OPENING tag (the word after the operator) is quoted - the terminating line has no say; the delimiter recorded is the opening tag, the body is the body token, `<<-` and only `<<-` asks for tab removal'}
#[kani::proof]
#[kani::unwind(2)]
fn vk_c10_here_document_action() {
    let open = Tok { id: 1, quoted: kani::any() };
    let body = Tok { id: 2, quoted: kani::any() };
    let close = Tok { id: 3, quoted: kani::any() };
    let dash: bool = kani::any();
    let d = if dash { k_dash(&open, &body, &close) } else { k_plain(&open, &body, &close) };
    kani::cover!(open.quoted && !close.quoted, "quoted_opening_tag_plain_terminating_line");
    kani::cover!(dash && !open.quoted, "tab_removing_form_with_expansion");
    assert!(d.requires_expansion == !open.quoted, "C10.heredoc.body_expanded_iff_opening_tag_unquoted");
    assert!(d.here_end.from == 1 && d.doc.from == 2, "C10.heredoc.delimiter_is_the_opening_tag_body_is_the_body");
    assert!(d.remove_tabs == dash, "C10.heredoc.tab_removal_only_for_dash_form");
}
