/*@meta
{
 'package': 'brush-builtins',
 'host': 'brush-builtins/src/return_.rs',
 'stubs': ['transplant of the builtin\'s execute(): `self` is a stand-in with the same argument fields, the execution context is duck-typed (last status, in-function / in-sourced-script flags, a stderr sink)'],
 'assumptions': ['argument values as delivered by clap (any value of the field type)'],
 'out_of_claim': ['clap parsing of the argument text (range errors of the i8 / i32 / i64 parse)', 'loop-depth tracking (known finding D16: there is none)'],
}
@*/
/*@recipes
{
 'exec': {'file': 'brush-builtins/src/return_.rs', 'start': r'async fn execute<SE: brush_core::ShellExtensions>\(', 'mode': 'fn_body', 'self_to': 'this'},
}
@*/
use super::*;

pub struct DSh { pub status: u8, pub in_fn: bool, pub in_src: bool }
impl DSh { pub fn last_exit_status(&self) -> u8 { self.status } pub fn in_function(&self) -> bool { self.in_fn } pub fn in_sourced_script(&self) -> bool { self.in_src } }
pub struct Sink { pub lines: u8 }
impl std::io::Write for Sink { fn write(&mut self, b: &[u8]) -> std::io::Result<usize> { Ok(b.len()) } fn flush(&mut self) -> std::io::Result<()> { Ok(()) } fn write_fmt(&mut self, _a: std::fmt::Arguments<'_>) -> std::io::Result<()> { self.lines += 1; Ok(()) } }
pub struct Ctx<'a> { pub shell: &'a mut DSh }
impl Ctx<'_> { pub fn stderr(&self) -> Sink { Sink { lines: 0 } } }
fn flow_tag(c: &ExecutionControlFlow) -> (u8, usize) { match c { ExecutionControlFlow::Normal => (0, 0), ExecutionControlFlow::BreakLoop { levels } => (1, *levels), ExecutionControlFlow::ContinueLoop { levels } => (2, *levels), ExecutionControlFlow::ReturnFromFunctionOrScript => (3, 0), ExecutionControlFlow::ExitShell => (4, 0) } }

pub struct Ret { pub code: Option<i32> }
fn t_exec(this: &Ret, context: Ctx<'_>, _context: u8) -> Result<ExecutionResult, brush_core::Error> {
/*@LIFT exec*/
}

//@proof {'props': ['C02'], 'tier': 'quick', 'timeout': 300, 'uses': ['exec'], 'bounds': 'status argument any i32 or absent; in a function / sourced script or not (symbolic); $? any u8', 'desc': 'return [n]: inside a function or sourced script requests a return with status n mod 256 (two\'s complement low byte, as bash), or $? when n is absent; elsewhere it is a usage error (status 2) and execution goes on'}
#[kani::proof]
#[kani::unwind(2)]
fn vk_c02_return_builtin() {
    let code: Option<i32> = if kani::any() { Some(kani::any()) } else { None };
    let mut sh = DSh { status: kani::any(), in_fn: kani::any(), in_src: kani::any() };
    let (st, inside) = (sh.status, sh.in_fn || sh.in_src);
    let r = t_exec(&Ret { code }, Ctx { shell: &mut sh }, 0);
    kani::cover!(code == Some(300), "return_300");
    kani::cover!(code == Some(-1) && inside, "return_minus_one");
    let want = match code { Some(c) => (c as u32 & 0xFF) as u8, None => st };
    match &r {
        Ok(x) => {
            if inside { assert!(flow_tag(&x.next_control_flow) == (3, 0) && u8::from(x.exit_code) == want, "C02.return.low_byte_of_the_argument_or_last_status"); }
            else { assert!(flow_tag(&x.next_control_flow) == (0, 0) && u8::from(x.exit_code) == 2, "C02.return.outside_function_is_usage_error_2"); }
        }
        Err(_) => assert!(false, "C02.return.never_errs"),
    }
    std::mem::forget(r);
}

