/*@meta
{
 'package': 'brush-builtins',
 'host': 'brush-builtins/src/exit.rs',
 'stubs': ['transplant of the builtin\'s execute(): `self` is a stand-in with the same argument fields, the execution context is duck-typed (last status, in-function / in-sourced-script flags, a stderr sink)'],
 'assumptions': ['argument values as delivered by clap (any value of the field type)'],
 'out_of_claim': ['clap parsing of the argument text (range errors of the i8 / i32 / i64 parse)', 'loop-depth tracking (known finding D16: there is none)'],
}
@*/
/*@recipes
{
 'exec': {'file': 'brush-builtins/src/exit.rs', 'start': r'async fn execute<SE: brush_core::ShellExtensions>\(', 'mode': 'fn_body', 'self_to': 'this'},
}
@*/
use super::*;

pub struct DSh { pub status: u8, pub in_fn: bool, pub in_src: bool }
impl DSh { pub fn last_exit_status(&self) -> u8 { self.status } pub fn in_function(&self) -> bool { self.in_fn } pub fn in_sourced_script(&self) -> bool { self.in_src } }
pub struct Sink { pub lines: u8 }
impl std::io::Write for Sink { fn write(&mut self, b: &[u8]) -> std::io::Result<usize> { Ok(b.len()) } fn flush(&mut self) -> std::io::Result<()> { Ok(()) } fn write_fmt(&mut self, _a: std::fmt::Arguments<'_>) -> std::io::Result<()> { self.lines += 1; Ok(()) } }
pub struct Ctx<'a> { pub shell: &'a mut DSh }
impl Ctx<'_> { pub fn stderr(&self) -> Sink { Sink { lines: 0 } } }
fn flow_tag(c: &ExecutionControlFlow) -> (u8, usize) { match c { ExecutionControlFlow::Normal => (0, 0), ExecutionControlFlow::BreakLoop { levels } => (1, *levels), ExecutionControlFlow::ContinueLoop { levels } => (2, *levels), ExecutionControlFlow::ReturnFromFunctionOrScript => (3, 0), ExecutionControlFlow::ExitShell => (4, 0) } }

pub struct Ext { pub code: Option<i64> }
fn t_exec(this: &Ext, context: Ctx<'_>, _context: u8) -> Result<ExecutionResult, brush_core::Error> {
/*@LIFT exec*/
}

//@proof {'props': ['C02', 'C16'], 'tier': 'quick', 'timeout': 300, 'uses': ['exec'], 'bounds': 'status argument any i64 or absent; $? any u8', 'desc': 'exit [n]: always requests leaving the shell, with status n mod 256 (low byte, negative values wrap as in bash) or $? when n is absent'}
#[kani::proof]
#[kani::unwind(2)]
fn vk_c02_exit_builtin() {
    let code: Option<i64> = if kani::any() { Some(kani::any()) } else { None };
    let mut sh = DSh { status: kani::any(), in_fn: kani::any(), in_src: kani::any() };
    let st = sh.status;
    let r = t_exec(&Ext { code }, Ctx { shell: &mut sh }, 0);
    kani::cover!(code == Some(256), "exit_256_is_0");
    kani::cover!(code == Some(-2), "exit_minus_two_is_254");
    let want = match code { Some(c) => (c as u64 & 0xFF) as u8, None => st };
    match &r {
        Ok(x) => assert!(flow_tag(&x.next_control_flow) == (4, 0) && u8::from(x.exit_code) == want, "C16.exit.requests_exit_with_low_byte_of_argument_or_last_status"),
        Err(_) => assert!(false, "C02.exit.never_errs"),
    }
    std::mem::forget(r);
}

