/*@meta
{
 'package': 'brush-builtins',
 'host': 'brush-builtins/src/declare.rs',
 'stubs': ['transplants of DeclareCommand::apply_attributes_before_update / apply_attributes_after_update: `self` is a stand-in with the same flag fields (each answers to_bool() with None / Some(true) / Some(false)); the variable is a real brush_core::ShellVariable'],
 'assumptions': ['at most one of -l / -u / -c is *set* in one invocation (bash treats the combinations specially)', 'one declare invocation on one variable'],
 'out_of_claim': ['option parsing (clap)', 'how the value is transformed by -l / -u / -c / -i on later assignments (strings)', 'array conversion flags -a / -A', 'listing / printing'],
}
@*/
/*@recipes
{
 'before_update': {'file': 'brush-builtins/src/declare.rs', 'start': r'(?:const )?fn apply_attributes_before_update\(', 'mode': 'fn_body', 'self_to': 'this', 'self_type': 'super::DeclareCommand'},
 'after_update': {'file': 'brush-builtins/src/declare.rs', 'start': r'fn apply_attributes_after_update\(', 'mode': 'fn_body', 'self_to': 'this', 'self_type': 'super::DeclareCommand'},
 'new_var': {'file': 'brush-builtins/src/declare.rs', 'start': r'let unset_type = if self\.make_indexed_array\.is_some\(\) \{', 'mode': 'until', 'end': r'context\.shell\.env_mut\(\)\.add\(name, var, scope\)\?;', 'self_to': 'this',
        'rewrites': [[r'this\.apply_attributes_before_update\(&mut var\)', r't_before(this, &mut var)', 1], [r'this\.apply_attributes_after_update\(&mut var, verb\)', r't_after(this, &mut var, verb)', 1]]},
}
@*/
use super::{DeclareVerb, ShellValue, ShellVariable, ShellVariableUpdateTransform};

#[derive(Clone, Copy)]
pub struct Tri(pub u8);      // 0 not given, 1 -x (set), 2 +x (clear)
impl Tri { pub const fn to_bool(&self) -> Option<bool> { match self.0 { 1 => Some(true), 2 => Some(false), _ => None } } }
pub struct Flags { pub make_integer: Tri, pub capitalize_value_on_assignment: Tri, pub lowercase_value_on_assignment: Tri, pub make_nameref: Tri, pub make_traced: Tri,
                   pub uppercase_value_on_assignment: Tri, pub make_exported: Tri, pub make_readonly: Tri, pub make_indexed_array: Option<bool>, pub make_associative_array: Option<bool> }

fn t_before(this: &Flags, var: &mut ShellVariable) -> Result<(), brush_core::Error> {
/*@LIFT before_update*/
}
fn t_after(this: &Flags, var: &mut ShellVariable, verb: DeclareVerb) -> Result<(), brush_core::Error> {
/*@LIFT after_update*/
}

fn any_tri() -> Tri { let v: u8 = kani::any(); kani::assume(v < 3); Tri(v) }
/// 0 none, 1 lower, 2 upper, 3 capitalize
fn tr_tag(t: ShellVariableUpdateTransform) -> u8 { match t { ShellVariableUpdateTransform::None => 0, ShellVariableUpdateTransform::Lowercase => 1, ShellVariableUpdateTransform::Uppercase => 2, ShellVariableUpdateTransform::Capitalize => 3 } }
fn tr_of(k: u8) -> ShellVariableUpdateTransform { match k { 0 => ShellVariableUpdateTransform::None, 1 => ShellVariableUpdateTransform::Lowercase, 2 => ShellVariableUpdateTransform::Uppercase, _ => ShellVariableUpdateTransform::Capitalize } }

//@proof {'props': ['C09'], 'tier': 'quick', 'setup': True, 'timeout': 600, 'uses': ['before_update', 'after_update'], 'bounds': 'one declare / local / readonly invocation with each of -i -c -l -n -t -u -x -r given as -x, +x or not at all (symbolic; at most one of l/u/c set); the variable starts with arbitrary attributes', 'desc': 'attribute flags are independent: a flag that is not given leaves its attribute alone; -x sets, +x clears exactly its own attribute - in particular +l / +u / +c only remove the case transform they name; -l / -u / -c replace the case transform; the readonly verb always sets readonly and +r on a readonly variable is refused'}
#[kani::proof]
#[kani::unwind(3)]
fn vk_c09_declare_attribute_flags() {
    let f = Flags { make_integer: any_tri(), capitalize_value_on_assignment: any_tri(), lowercase_value_on_assignment: any_tri(), make_nameref: any_tri(), make_traced: any_tri(),
                    uppercase_value_on_assignment: any_tri(), make_exported: any_tri(), make_readonly: any_tri(), make_indexed_array: None, make_associative_array: None };
    let sets = (f.capitalize_value_on_assignment.0 == 1) as u8 + (f.lowercase_value_on_assignment.0 == 1) as u8 + (f.uppercase_value_on_assignment.0 == 1) as u8;
    kani::assume(sets <= 1);
    let mut v = ShellVariable::new(ShellValue::String(String::new()));
    let (i0, n0, t0, x0, r0): (bool, bool, bool, bool, bool) = (kani::any(), kani::any(), kani::any(), kani::any(), kani::any());
    let tr0: u8 = kani::any(); kani::assume(tr0 < 4);
    if i0 { v.treat_as_integer(); } if n0 { v.treat_as_nameref(); } if t0 { v.enable_trace(); } if x0 { v.export(); }
    v.set_update_transform(tr_of(tr0));
    if r0 { v.set_readonly(); }
    let verb_k: u8 = kani::any(); kani::assume(verb_k < 3);
    let verb = match verb_k { 0 => DeclareVerb::Declare, 1 => DeclareVerb::Local, _ => DeclareVerb::Readonly };
    let rb = t_before(&f, &mut v);
    let ra = t_after(&f, &mut v, verb);
    kani::cover!(tr0 == 2 && f.lowercase_value_on_assignment.0 == 2 && f.uppercase_value_on_assignment.0 == 0, "plus_l_on_an_uppercase_variable");
    kani::cover!(r0 && f.make_readonly.0 == 2 && verb_k == 0, "plus_r_on_readonly");
    assert!(rb.is_ok(), "C09.declare.before_update_never_fails");
    let exp = |flag: Tri, old: bool| match flag.0 { 1 => true, 2 => false, _ => old };
    assert!(v.is_treated_as_integer() == exp(f.make_integer, i0), "C09.declare.integer_flag_independent");
    assert!(v.is_treated_as_nameref() == exp(f.make_nameref, n0), "C09.declare.nameref_flag_independent");
    assert!(v.is_trace_enabled() == exp(f.make_traced, t0), "C09.declare.trace_flag_independent");
    assert!(v.is_exported() == exp(f.make_exported, x0), "C09.declare.export_flag_independent");
    // case transform: a set flag wins; otherwise a clear flag removes the transform only if it is the one named; otherwise unchanged
    let set_to = if f.capitalize_value_on_assignment.0 == 1 { 3 } else if f.lowercase_value_on_assignment.0 == 1 { 1 } else if f.uppercase_value_on_assignment.0 == 1 { 2 } else { 0 };
    let cleared = (tr0 == 3 && f.capitalize_value_on_assignment.0 == 2) || (tr0 == 1 && f.lowercase_value_on_assignment.0 == 2) || (tr0 == 2 && f.uppercase_value_on_assignment.0 == 2);
    let tr_exp = if set_to != 0 { set_to } else if cleared { 0 } else { tr0 };
    assert!(tr_tag(v.get_update_transform()) == tr_exp, "C09.declare.case_transform_changed_only_by_its_own_flag");
    // readonly
    if verb_k == 2 || f.make_readonly.0 == 1 { assert!(v.is_readonly() && ra.is_ok(), "C09.declare.readonly_set"); }
    else if f.make_readonly.0 == 2 { assert!(v.is_readonly() == r0 && ra.is_err() == r0, "C09.declare.plus_r_refused_on_readonly_variable"); }
    else { assert!(v.is_readonly() == r0 && ra.is_ok(), "C09.declare.readonly_untouched"); }
    std::mem::forget(rb); std::mem::forget(ra); std::mem::forget(v);
}

// ---------------------------------------------------------------- a variable that `local` / `declare` creates
pub struct DOpts { pub export_variables_on_modification: bool }
pub struct DEnv { pub shadowed: Option<ShellVariable> }
impl DEnv { pub fn get(&self, _n: &str) -> Option<(brush_core::env::EnvironmentScope, &ShellVariable)> { self.shadowed.as_ref().map(|v| (brush_core::env::EnvironmentScope::Global, v)) } }
pub struct DSh { pub o: DOpts, pub e: DEnv }
impl DSh { pub fn options(&self) -> &DOpts { &self.o } pub fn env(&self) -> &DEnv { &self.e } }
pub struct DCtx { pub shell: DSh }
pub struct NameTok;
impl NameTok { pub fn as_str(&self) -> &str { "x" } }

#[allow(unused_variables, unused_mut)]
fn t_new_var(this: &Flags, context: &mut DCtx, name: NameTok, verb: DeclareVerb, create_var_local: bool, name_is_array: bool) -> Result<(ShellVariable, EnvironmentScope), brush_core::Error> {
    use brush_core::variables::{ShellValueLiteral, ShellValueUnsetType};
    let initial_value: Option<ShellValueLiteral> = None;
    /*@LIFT new_var*/
    Ok((var, scope))
}
use brush_core::env::EnvironmentScope;

//@proof {'props': ['C09'], 'tier': 'quick', 'timeout': 600, 'uses': ['before_update', 'after_update', 'new_var'], 'bounds': 'a name with no binding in the scope where `local` / `declare` creates one, no initial value; the variable it shadows: none / not exported / exported (symbolic); -x / +x / neither (symbolic); local or global creation (symbolic)', 'desc': 'creating a variable: a new LOCAL that shadows an exported variable is exported too (bash: children see the local\'s value, `export X=1; f() { local X=2; env; }`) unless +x is given; nothing else inherits export; -x always exports; the scope is the local one exactly when a local was asked for'}
#[kani::proof]
#[kani::unwind(3)]
fn vk_c09_new_local_inherits_export() {
    let f = Flags { make_integer: Tri(0), capitalize_value_on_assignment: Tri(0), lowercase_value_on_assignment: Tri(0), make_nameref: Tri(0), make_traced: Tri(0),
                    uppercase_value_on_assignment: Tri(0), make_exported: any_tri(), make_readonly: Tri(0), make_indexed_array: None, make_associative_array: None };
    let shadow_kind: u8 = kani::any(); kani::assume(shadow_kind < 3);     // 0 nothing shadowed, 1 not exported, 2 exported
    let shadowed = match shadow_kind { 0 => None, 1 => Some(ShellVariable::new(ShellValue::String(String::new()))), _ => { let mut v = ShellVariable::new(ShellValue::String(String::new())); v.export(); Some(v) } };
    let mut ctx = DCtx { shell: DSh { o: DOpts { export_variables_on_modification: false }, e: DEnv { shadowed } } };
    let local: bool = kani::any();
    let r = t_new_var(&f, &mut ctx, NameTok, if local { DeclareVerb::Local } else { DeclareVerb::Declare }, local, false);
    kani::cover!(local && shadow_kind == 2 && f.make_exported.0 == 0, "plain_local_over_an_exported_variable");
    match &r {
        Ok((v, scope)) => {
            let expect = match f.make_exported.0 { 1 => true, 2 => false, _ => local && shadow_kind == 2 };
            assert!(v.is_exported() == expect, "C09.local.a_new_local_takes_over_the_export_attribute_of_what_it_shadows");
            assert!(matches!(scope, EnvironmentScope::Local) == local, "C09.local.created_in_the_scope_asked_for");
        }
        Err(_) => assert!(false, "C09.local.creation_does_not_fail"),
    }
    std::mem::forget(r); std::mem::forget(ctx);
}
