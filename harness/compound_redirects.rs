/*@meta
{
 'package': 'brush-core',
 'host': 'brush-core/src/interp.rs',
 'stubs': ['tracing -> no-op stub crate',
           'de-async transplant of `ExecuteInPipeline for ast::Command` (the dispatcher that applies the redirections written after a compound command - `{ ...; } >f`, `while ...; done <f`, `( ... ) 2>&1` - and then runs it) over duck types: setup_redirect -> oracle that may fail at the k-th redirection; the compound / simple / function bodies -> oracles returning an arbitrary result or an error',
           'error::Error -> light stand-in inside the harness module (drop glue)'],
 'assumptions': ['0..2 redirections on the compound command'],
 'out_of_claim': ['what a redirection opens (redirect_* harnesses)', 'restoration: the redirections live in the by-value `params` of this call, so they end with it (ownership, read not encoded)', 'definition-time redirections of functions (func_call)'],
}
@*/
/*@recipes
{
 'cmd_dispatch': {'file': 'brush-core/src/interp.rs', 'start': r'ExecuteInPipeline<SE> for ast::Command \{\s*async fn execute_in_pipeline\(', 'mode': 'fn_body', 'self_to': 'this', 'deasync': True,
        'rewrites': [[r'\bSelf::', r'Cmd::', 3],
                     [r'setup_redirect\(&mut pipeline_context\.shell, &mut params, redirect\)', r'__o.redirect(*redirect)', 1],
                     [r'simple\.execute_in_pipeline\(pipeline_context, params\)', r'__o.simple(pipeline_context, params)', 1],
                     [r'(?s)compound\s*\.execute\(&mut pipeline_context\.shell, &params\)', r'__o.compound()', 1],
                     [r'(?s)func\s*\.execute\(&mut pipeline_context\.shell, &params\)', r'__o.funcdef()', 1]]},
}
@*/
use super::{ExecutionResult, ExecutionSpawnResult};
use std::io::Write;

pub mod error { pub struct Error(pub u8); impl std::fmt::Display for Error { fn fmt(&self, _f: &mut std::fmt::Formatter<'_>) -> std::fmt::Result { Ok(()) } } }
impl From<std::io::Error> for error::Error { fn from(e: std::io::Error) -> Self { std::mem::forget(e); error::Error(9) } }
pub struct RList(pub [u8; 2], pub usize);
pub struct RIter<'a> { l: &'a RList, i: usize }
impl<'a> Iterator for RIter<'a> { type Item = &'a u8; fn next(&mut self) -> Option<&'a u8> { let i = self.i; self.i += 1; if i >= 2 { None } else if i >= self.l.1 { None } else { Some(&self.l.0[i]) } } }
impl<'a> IntoIterator for &'a RList { type Item = &'a u8; type IntoIter = RIter<'a>; fn into_iter(self) -> RIter<'a> { RIter { l: self, i: 0 } } }
pub struct Redirects(pub RList);
pub enum Cmd { Simple(u8), Compound(u8, Option<Redirects>), Function(u8) }
pub struct DOpts { pub do_not_execute_commands: bool }
pub struct DSh { pub o: DOpts, pub current_set: u8, pub stderr_lines: u8 }
impl DSh { pub fn options(&self) -> &DOpts { &self.o } pub fn set_current_cmd(&mut self, _c: &Cmd) { self.current_set += 1; } }
pub struct Ctx<'a> { pub shell: &'a mut DSh }
pub struct Params { pub lines: *mut u8 }
pub struct Sink { pub lines: *mut u8 }
impl Write for Sink { fn write(&mut self, b: &[u8]) -> std::io::Result<usize> { Ok(b.len()) } fn flush(&mut self) -> std::io::Result<()> { Ok(()) } fn write_fmt(&mut self, _a: std::fmt::Arguments<'_>) -> std::io::Result<()> { unsafe { *self.lines += 1; } Ok(()) } }
impl Params { pub fn stderr(&self, _s: &DSh) -> Sink { Sink { lines: self.lines } } }

pub struct COracle { pub fail_at: u8, pub redirects_done: u8, pub bodies: u8, pub body_fails: bool, pub code: u8, pub body_after_redirects: u8 }
impl COracle {
    fn redirect(&mut self, id: u8) -> Result<(), error::Error> { self.redirects_done += 1; if self.fail_at == id + 1 { Err(error::Error(1)) } else { Ok(()) } }
    fn body(&mut self) -> Result<ExecutionResult, error::Error> { self.bodies += 1; self.body_after_redirects = self.redirects_done; if self.body_fails { Err(error::Error(2)) } else { Ok(ExecutionResult::new(self.code)) } }
    fn compound(&mut self) -> Result<ExecutionResult, error::Error> { self.body() }
    fn funcdef(&mut self) -> Result<ExecutionResult, error::Error> { self.body() }
    fn simple(&mut self, _c: Ctx<'_>, _p: Params) -> Result<ExecutionSpawnResult, error::Error> { self.body().map(Into::into) }
}

fn t_cmd_dispatch(this: &Cmd, mut pipeline_context: Ctx<'_>, mut params: Params, __o: &mut COracle) -> Result<ExecutionSpawnResult, error::Error> {
/*@LIFT cmd_dispatch*/
}

//@proof {'props': ['C10', 'C02'], 'tier': 'quick', 'timeout': 600, 'uses': ['cmd_dispatch'], 'bounds': 'a compound command with 0, 1 or 2 redirections, any one of which may fail (symbolic); the body returns any status or an error', 'desc': 'redirections on a compound command: applied in order before the body; if one fails the body does not run, the failure is reported on stderr and the command COMPLETES with status 1 (so `|| handler` and the rest of the line run, as in bash) - it is not an error that aborts the enclosing list; otherwise the body runs once after all of them and its result is the command\'s'}
#[kani::proof]
#[kani::unwind(4)]
fn vk_c10_compound_command_redirections() {
    let n: usize = kani::any(); kani::assume(n <= 2);
    let cmd = Cmd::Compound(7, if n == 0 && kani::any() { None } else { Some(Redirects(RList([0, 1], n))) });
    let mut sh = DSh { o: DOpts { do_not_execute_commands: false }, current_set: 0, stderr_lines: 0 };
    let mut lines: u8 = 0;
    let mut o = COracle { fail_at: kani::any(), redirects_done: 0, bodies: 0, body_fails: kani::any(), code: kani::any(), body_after_redirects: 0 };
    kani::assume(o.fail_at <= 2);
    let r = t_cmd_dispatch(&cmd, Ctx { shell: &mut sh }, Params { lines: &mut lines as *mut u8 }, &mut o);
    let fails = o.fail_at >= 1 && (o.fail_at as usize) <= n;
    kani::cover!(fails && o.fail_at == 2, "second_redirection_fails");
    kani::cover!(!fails && n == 2 && !o.body_fails, "two_redirections_then_the_body");
    if fails {
        assert!(o.bodies == 0 && o.redirects_done == o.fail_at, "C10.compound.failing_redirection_stops_before_the_body");
        assert!(matches!(&r, Ok(ExecutionSpawnResult::Completed(x)) if u8::from(x.exit_code) == 1 && x.is_normal_flow()), "C10.compound.redirection_failure_is_status_1_not_an_aborting_error");
        assert!(lines == 1, "C10.compound.redirection_failure_is_reported_once");
    } else {
        assert!(o.bodies == 1 && o.body_after_redirects as usize == n, "C10.compound.body_runs_once_after_all_redirections");
        if o.body_fails { assert!(r.is_err(), "C02.compound.body_error_propagates"); }
        else { assert!(matches!(&r, Ok(ExecutionSpawnResult::Completed(x)) if u8::from(x.exit_code) == o.code), "C02.compound.result_is_the_bodys"); assert!(lines == 0, "C10.compound.nothing_reported_on_success"); }
    }
    std::mem::forget(r);
}
