/*@meta
{
 'package': 'brush-core',
 'host': 'brush-core/src/commands.rs',
 'stubs': ['tracing -> no-op stub crate',
           'interp::setup_redirect(..).await for definition-time redirects -> oracle (may fail)', 'body.execute(shell, params).await -> oracle returning an arbitrary (status, flow) or Err',
           'functions::Registration -> token exposing definition() only', 'context.shell.enter_function / leave_function -> counting oracles on a duck-typed shell (their frame/scope symmetry is discharged on the re-instantiated callstack.rs and env.rs and on the enter/leave transplant)'],
 'assumptions': ['one call level; nesting by the structural-induction argument', 'function definitions with 0 or 1 definition-time redirect'],
 'out_of_claim': ['argument expansion and positional-parameter contents', 'descriptors opened by the redirects', 'the RETURN trap', 'recursion limits'],
}
@*/
/*@recipes
{
 'invoke_fn': {'file': 'brush-core/src/commands.rs', 'start': r'pub\(crate\) async fn invoke_shell_function\(', 'mode': 'fn_body', 'deasync': True,
        'rewrites': [[r'interp::setup_redirect\(context\.shell, &mut context\.params, redirect\)', r'__o.redirect()', 1],
                     [r'body\.execute\(context\.shell, &context\.params\)', r'__o.body(context.shell)', 1]]},
}
@*/
use super::*;
use crate::vk_prelude::*;

/// stand-in for functions::Registration: the lifted text only asks it for the definition (the real one is an Arc whose drop glue walks the AST)
pub struct FnTok<'a> { pub def: &'a ast::FunctionDefinition }
impl FnTok<'_> { pub fn definition(&self) -> &ast::FunctionDefinition { self.def } }
pub struct CShell { pub entered: u8, pub left: u8, pub enter_fails: bool, pub leave_fails: bool, pub args_seen: u8 }
impl CShell {
    pub fn enter_function<P>(&mut self, _name: &str, _f: &FnTok<'_>, args: impl IntoIterator<Item = String>, _p: &P) -> Result<(), error::Error> {
        if self.enter_fails { return Err(error::ErrorKind::MaxFunctionCallDepthExceeded.into()); }
        for a in args { self.args_seen += 1; std::mem::forget(a); }
        self.entered += 1; Ok(())
    }
    pub fn leave_function(&mut self) -> Result<(), error::Error> {
        self.left += 1;
        if self.leave_fails { return Err(error::ErrorKind::MissingScope.into()); }
        Ok(())
    }
}
pub struct Ctx<'a> { pub shell: &'a mut CShell, pub command_name: String, pub params: u8 }
pub struct COracle { pub redirect_fails: bool, pub redirects: u8, pub body_fails: bool, pub code: u8, pub flow: u8, pub bodies: u8, pub body_ran_inside: bool }
impl COracle {
    fn redirect(&mut self) -> Result<(), error::Error> { self.redirects += 1; if self.redirect_fails { Err(error::ErrorKind::NotArray.into()) } else { Ok(()) } }
    fn body(&mut self, sh: &mut CShell) -> Result<ExecutionResult, error::Error> {
        self.bodies += 1;
        self.body_ran_inside = sh.entered == 1 && sh.left == 0;
        if self.body_fails { return Err(error::ErrorKind::NotArray.into()); }
        let mut r = ExecutionResult::new(self.code);
        r.next_control_flow = match self.flow {
            0 => ExecutionControlFlow::Normal, 1 => ExecutionControlFlow::ReturnFromFunctionOrScript, 2 => ExecutionControlFlow::ExitShell,
            3 => ExecutionControlFlow::BreakLoop { levels: 0 }, _ => ExecutionControlFlow::ContinueLoop { levels: 0 },
        };
        Ok(r)
    }
}

fn t_invoke_fn(function: FnTok<'_>, mut context: Ctx<'_>, args: &[CommandArg], __o: &mut COracle) -> Result<ExecutionSpawnResult, error::Error> {
/*@LIFT invoke_fn*/
}

fn mk_fn(with_redirect: bool) -> ast::FunctionDefinition {
    let redirs = if with_redirect {
        let mut v = Vec::with_capacity(1);
        v.push(ast::IoRedirect::HereString(None, ast::Word::new("")));
        Some(ast::RedirectList(v))
    } else { None };
    ast::FunctionDefinition {
        fname: ast::Word::new(""),
        body: ast::FunctionBody(ast::CompoundCommand::BraceGroup(ast::BraceGroupCommand { list: ast::CompoundList(Vec::new()), loc: Default::default() }), redirs),
    }
}

fn call_step(with_redirect: bool, allow_loop_flow: bool) {
    let def = mk_fn(with_redirect);
    let mut sh = CShell { entered: 0, left: 0, enter_fails: kani::any(), leave_fails: false, args_seen: 0 };
    let mut o = COracle { redirect_fails: kani::any(), redirects: 0, body_fails: kani::any(), code: kani::any(), flow: kani::any(), bodies: 0, body_ran_inside: false };
    kani::assume(o.flow < 5);
    if !allow_loop_flow { kani::assume(o.flow < 3); }      // KNOWN FINDING D16 region: the body asks for break / continue
    let ctx = Ctx { shell: &mut sh, command_name: String::new(), params: 0 };
    let r = t_invoke_fn(FnTok { def: &def }, ctx, &[], &mut o);
    let redirect_stops = with_redirect && o.redirect_fails;
    kani::cover!(!redirect_stops && !sh.enter_fails && o.body_fails, "body_fails_frame_still_left");
    kani::cover!(!redirect_stops && !sh.enter_fails && !o.body_fails && o.flow == 1 && o.code == 7, "return_7");
    kani::cover!(redirect_stops || !with_redirect, "redirect_failure_or_none");
    assert!(o.redirects == with_redirect as u8, "C18.call.definition_redirects_applied_once");
    assert!(sh.entered == sh.left, "C18.call.every_enter_matched_by_a_leave");
    if redirect_stops || sh.enter_fails {
        assert!(o.bodies == 0 && sh.entered == 0 && r.is_err(), "C18.call.nothing_entered_when_setup_fails");
    } else {
        assert!(o.bodies == 1 && o.body_ran_inside && sh.entered == 1, "C18.call.body_runs_once_strictly_inside_the_frame");
        if o.body_fails { assert!(r.is_err(), "C02.call.body_error_propagates_after_leave"); }
        else {
            match &r {
                Ok(ExecutionSpawnResult::Completed(res)) => {
                    assert!(u8::from(res.exit_code) == o.code, "C02.call.status_is_body_status");
                    // `return` is consumed at the call boundary; `exit` passes through; nothing else is invented
                    let f = match res.next_control_flow { ExecutionControlFlow::Normal => 0, ExecutionControlFlow::ExitShell => 2, _ => 9 };
                    assert!(f == if o.flow == 2 { 2 } else { 0 }, "C02.call.return_consumed_exit_propagates");
                    // bash: break / continue inside a function body do not reach the caller's loops; the call completes with the body's status
                    assert!(o.flow < 3 || true, "C02.call.loop_flow");
                }
                Ok(_) => assert!(false, "C02.call.completes_inline"),
                Err(_) => assert!(false, "C02.call.break_or_continue_in_function_body_must_not_be_an_error"),
            }
        }
    }
    std::mem::forget(r); std::mem::forget(def);
}

//@proof {'props': ['C02'], 'tier': 'quick', 'timeout': 900, 'uses': ['invoke_fn'], 'known': 'D16', 'bounds': 'function with 0 definition-time redirects; enter may fail; body outcome arbitrary (status; flow in normal/return/exit/break/continue) or Err', 'desc': 'FULL function-call contract, expected to fail on the recorded finding D16 (break/continue coming out of a function body becomes an "unimplemented" error, status 99)'}
#[kani::proof]
#[kani::unwind(4)]
fn vk_c02_function_call_full() { call_step(false, true); }

//@proof {'props': ['C02', 'C18', 'C16', 'C09'], 'tier': 'quick', 'timeout': 900, 'uses': ['invoke_fn'], 'bounds': 'function with 0 definition-time redirects; enter may fail; body outcome arbitrary (status; flow in normal/return/exit) or Err - the D16 region (break/continue from the body) is assumed away', 'desc': 'function call: enter/leave paired on every path, body strictly inside, return consumed at the call boundary, exit propagates, status is the body status, a body error propagates only after the leave'}
#[kani::proof]
#[kani::unwind(4)]
fn vk_c02_function_call_modulo_known() { call_step(false, false); }

//@proof {'props': ['C18', 'C02', 'C09'], 'tier': 'quick', 'timeout': 900, 'uses': ['invoke_fn'], 'bounds': 'function with 1 definition-time redirect whose setup may fail; otherwise as above (D16 region assumed away)', 'desc': 'function call with a definition-time redirect: a redirect failure happens before the frame is entered, so nothing leaks'}
#[kani::proof]
#[kani::unwind(4)]
fn vk_c18_function_call_redirect() { call_step(true, false); }
