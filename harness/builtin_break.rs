/*@meta
{
 'package': 'brush-builtins',
 'host': 'brush-builtins/src/break_.rs',
 'stubs': ['transplant of the builtin\'s execute(): `self` is a stand-in with the same argument fields, the execution context is duck-typed (last status, in-function / in-sourced-script flags, a stderr sink)'],
 'assumptions': ['argument values as delivered by clap (any value of the field type)'],
 'out_of_claim': ['clap parsing of the argument text (range errors of the i8 / i32 / i64 parse)', 'loop-depth tracking (known finding D16: there is none)'],
}
@*/
/*@recipes
{
 'exec': {'file': 'brush-builtins/src/break_.rs', 'start': r'async fn execute<SE: brush_core::ShellExtensions>\(', 'mode': 'fn_body', 'self_to': 'this'},
}
@*/
use super::*;

pub struct DSh { pub status: u8, pub in_fn: bool, pub in_src: bool }
impl DSh { pub fn last_exit_status(&self) -> u8 { self.status } pub fn in_function(&self) -> bool { self.in_fn } pub fn in_sourced_script(&self) -> bool { self.in_src } }
pub struct Sink { pub lines: u8 }
impl std::io::Write for Sink { fn write(&mut self, b: &[u8]) -> std::io::Result<usize> { Ok(b.len()) } fn flush(&mut self) -> std::io::Result<()> { Ok(()) } fn write_fmt(&mut self, _a: std::fmt::Arguments<'_>) -> std::io::Result<()> { self.lines += 1; Ok(()) } }
pub struct Ctx<'a> { pub shell: &'a mut DSh }
impl Ctx<'_> { pub fn stderr(&self) -> Sink { Sink { lines: 0 } } }
fn flow_tag(c: &ExecutionControlFlow) -> (u8, usize) { match c { ExecutionControlFlow::Normal => (0, 0), ExecutionControlFlow::BreakLoop { levels } => (1, *levels), ExecutionControlFlow::ContinueLoop { levels } => (2, *levels), ExecutionControlFlow::ReturnFromFunctionOrScript => (3, 0), ExecutionControlFlow::ExitShell => (4, 0) } }

pub struct Brk { pub which_loop: i8 }
fn t_exec(this: &Brk, context: Ctx<'_>, _context: u8) -> Result<ExecutionResult, brush_core::Error> {
/*@LIFT exec*/
}

//@proof {'props': ['C02'], 'tier': 'quick', 'timeout': 300, 'uses': ['exec'], 'bounds': 'level argument any i8', 'desc': 'break N: for N >= 1 requests leaving N loops (N-1 further levels) with status 0; N <= 0 is a usage error that requests nothing; no overflow for any N'}
#[kani::proof]
#[kani::unwind(2)]
fn vk_c02_break_builtin() {
    let n: i8 = kani::any();
    let mut sh = DSh { status: kani::any(), in_fn: false, in_src: false };
    let r = t_exec(&Brk { which_loop: n }, Ctx { shell: &mut sh }, 0);
    kani::cover!(n == i8::MAX, "max_level");
    kani::cover!(n == 0, "zero");
    match &r {
        Ok(x) => {
            if n >= 1 { assert!(flow_tag(&x.next_control_flow) == (1, (n - 1) as usize) && u8::from(x.exit_code) == 0, "C02.break.leaves_n_loops"); }
            else { assert!(flow_tag(&x.next_control_flow) == (0, 0) && u8::from(x.exit_code) != 0, "C02.break.non_positive_level_is_an_error_without_flow"); }
        }
        Err(_) => assert!(false, "C02.break.never_errs"),
    }
    std::mem::forget(r);
}

