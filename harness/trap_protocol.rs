/*@meta
{
 'package': 'brush-core',
 'host': 'brush-core/src/shell/traps.rs',
 'stubs': ['tracing -> no-op stub crate', 'std::hash::RandomState::new -> fixed keys', 'std::time::SystemTime::now -> UNIX_EPOCH',
           'call_stack().is_trap_signal_active(signal) -> symbolic input (the inductive hypothesis: some enclosing invocation of this signal\'s handler may be running)',
           'traps.get_handler(signal).cloned() -> oracle (registered: symbolic)', 'the bodies of enter_trap_handler / leave_trap_handler are transplanted too (so any shell state they save or restore is the repository\'s); only call_stack.push_trap_handler / pop inside them are counting oracles (their symmetry is discharged on the re-instantiated callstack.rs)',
           'run_string(handler) -> oracle: sets $? to an arbitrary value, may return Err, may request exit, and may itself trigger one nested trap invocation of the other signal (which runs the same transplant with its own oracle)'],
 'assumptions': ['one step of the trap protocol from an arbitrary enclosing state; nesting by induction on depth', 'signals EXIT and ERR'],
 'out_of_claim': ['brush-shell entry.rs and interactive_shell.rs (binary-side front-ends)', '`exit` inside handlers changing the process status', 'exec', 'signal traps and DEBUG/RETURN', 'ordering relative to output', 'the trap builtin'],
}
@*/
/*@recipes
{
 'invoke': {'file': 'brush-core/src/shell/traps.rs', 'start': r'pub\(crate\) async fn invoke_trap_handler\(', 'mode': 'fn_body', 'self_to': 'this', 'deasync': True,
            'rewrites': [[r'this\.call_stack\(\)\.is_trap_signal_active\(signal\)', r'__o.is_active(signal)', 1],
                         [r'this\.traps\.get_handler\(signal\)\.cloned\(\)', r'__o.handler(signal)', 1],
                         [r'this\.enter_trap_handler\(signal, Some\(&handler\)\)', r't_enter_trap(this, signal, Some(&handler), __o)', 1],
                         [r'this\s*\.run_string\(&handler\.command, &handler\.source_info, &params\)', r'__o.run_handler(this, &params)', 1],
                         [r'this\.leave_trap_handler\(\)', r't_leave_trap(this, __o)', 1]]},
 'enter_trap': {'file': 'brush-core/src/shell/callstack.rs', 'start': r'pub\(crate\) fn enter_trap_handler\(', 'mode': 'fn_body', 'self_to': 'this',
            'rewrites': [[r'this\.call_stack\.push_trap_handler\(signal, handler\)', r'__o.enter(signal)', 1]]},
 'leave_trap': {'file': 'brush-core/src/shell/callstack.rs', 'start': r'pub\(crate\) fn leave_trap_handler\(&mut self\)', 'mode': 'fn_body', 'self_to': 'this',
            'rewrites': [[r'this\.call_stack\.pop\(\)', r'__o.leave()', 1]]},
 'on_exit': {'file': 'brush-core/src/shell/traps.rs', 'start': r'pub async fn on_exit\(&mut self\)', 'mode': 'fn_body', 'self_to': 'this', 'deasync': True,
            'rewrites': [[r'this\.traps\.handles\(TrapSignal::Exit\)', r'__o.handles_exit()', 1],
                         [r'this\.invoke_trap_handler\(TrapSignal::Exit, &this\.default_exec_params\(\)\)', r'__o.invoke(this, TrapSignal::Exit)', 1]]},
}
@*/
use super::*;
use crate::vk_prelude::*;

type Sh = crate::Shell<crate::extensions::DefaultShellExtensions>;

pub struct TOracle {
    pub already_active: bool, pub registered: bool, pub handler_fails: bool, pub new_status: u8, pub handler_flow_exit: bool,
    pub entered: u8, pub left: u8, pub runs: u8, pub ran_inside: bool, pub entered_signal_ok: bool, pub status_seen_by_handler: u8, pub pg_same: bool,
    pub invokes: u8, pub invoke_fails: bool,
    pub nest: bool, pub nested_runs: u8, pub nested_status: u8, pub nested_balanced: bool, pub nested_new_status: u8, pub depth_now: u8, pub max_depth: u8,
}
impl TOracle {
    pub fn new() -> Self {
        TOracle { already_active: kani::any(), registered: kani::any(), handler_fails: kani::any(), new_status: kani::any(), handler_flow_exit: kani::any(),
                  entered: 0, left: 0, runs: 0, ran_inside: false, entered_signal_ok: true, status_seen_by_handler: 0, pg_same: false, invokes: 0, invoke_fails: kani::any(),
                  nest: false, nested_runs: 0, nested_status: 0, nested_balanced: true, nested_new_status: 0, depth_now: 0, max_depth: 0 }
    }
    fn is_active(&self, _s: TrapSignal) -> bool { self.already_active }
    fn handler(&self, _s: TrapSignal) -> Option<crate::traps::TrapHandler> { if self.registered { Some(crate::traps::TrapHandler::default()) } else { None } }
    fn enter(&mut self, _s: TrapSignal) { self.entered += 1; self.depth_now += 1; if self.depth_now > self.max_depth { self.max_depth = self.depth_now; } }
    fn leave(&mut self) { self.left += 1; self.depth_now = self.depth_now.saturating_sub(1); }
    fn run_handler(&mut self, shell: &mut Sh, p: &ExecutionParameters) -> Result<ExecutionResult, error::Error> {
        self.runs += 1;
        self.ran_inside = self.entered == 1 && self.left == 0;
        self.status_seen_by_handler = shell.last_exit_status();
        self.pg_same = matches!(p.process_group_policy, ProcessGroupPolicy::SameProcessGroup);
        shell.set_last_exit_status(self.new_status);
        if self.nest {
            // a command inside this handler fails and fires the *other* signal's trap: one nested protocol step, same transplant
            let other = if self.entered_signal_ok { TrapSignal::Err } else { TrapSignal::Exit };
            let mut inner = TOracle::new();
            inner.already_active = false; inner.registered = true; inner.nest = false; inner.handler_fails = false;
            let before = shell.last_exit_status();
            let r = t_invoke(shell, other, p, &mut inner);
            std::mem::forget(r);
            self.nested_runs += inner.runs;
            self.nested_status = inner.status_seen_by_handler;
            self.nested_balanced = inner.entered == inner.left && shell.last_exit_status() == before;
        }
        if self.handler_fails { return Err(error::ErrorKind::NotArray.into()); }
        let mut r = ExecutionResult::new(self.new_status);
        if self.handler_flow_exit { r.next_control_flow = crate::ExecutionControlFlow::ExitShell; }
        Ok(r)
    }
    fn handles_exit(&self) -> bool { self.registered }
    fn invoke(&mut self, _shell: &mut Sh, _s: TrapSignal) -> Result<ExecutionResult, error::Error> {
        self.invokes += 1;
        if self.invoke_fails { Err(error::ErrorKind::NotArray.into()) } else { Ok(ExecutionResult::success()) }
    }
}

fn t_invoke(this: &mut Sh, signal: TrapSignal, params: &ExecutionParameters, __o: &mut TOracle) -> Result<ExecutionResult, error::Error> {
/*@LIFT invoke*/
}
fn t_enter_trap(this: &mut Sh, signal: crate::traps::TrapSignal, handler: Option<&crate::traps::TrapHandler>, __o: &mut TOracle) {
/*@LIFT enter_trap*/
}
fn t_leave_trap(this: &mut Sh, __o: &mut TOracle) {
/*@LIFT leave_trap*/
}
fn t_on_exit(this: &mut Sh, __o: &mut TOracle) -> Result<(), error::Error> {
/*@LIFT on_exit*/
}

//@proof {'props': ['C16', 'C18'], 'tier': 'quick', 'timeout': 900, 'uses': ['invoke', 'enter_trap', 'leave_trap'], 'bounds': 'signal in {EXIT, ERR}; already-active, registered, handler outcome (status, Err, exit request), $? before - all symbolic; errtrace option symbolic; top-level shell (not in a function or subshell)', 'desc': 'one step of the trap protocol: nothing runs and nothing is pushed if the signal is already active or nothing is registered; otherwise the handler runs exactly once strictly between one enter and one leave, also when it fails; the handler sees the interrupted status in $? and $? afterwards equals $? before'}
#[kani::proof]
#[kani::unwind(4)]
#[kani::stub(std::hash::RandomState::new, crate::vk_prelude::stub_random_state_new)]
#[kani::stub(std::time::SystemTime::now, crate::vk_prelude::stub_now)]
fn vk_c16_trap_step() {
    let mut shell: Sh = crate::Shell::default();
    let which: bool = kani::any();
    let signal = if which { TrapSignal::Exit } else { TrapSignal::Err };
    shell.options_mut().shell_functions_inherit_err_trap = kani::any();
    let st: u8 = kani::any();
    shell.set_last_exit_status(st);
    let mut o = TOracle::new();
    let p = shell.default_exec_params();
    let r = t_invoke(&mut shell, signal, &p, &mut o);
    kani::cover!(o.runs == 1 && o.handler_fails, "handler_fails");
    kani::cover!(o.runs == 1 && !o.handler_fails && o.new_status != st, "handler_clobbers_status");
    kani::cover!(o.already_active && o.registered, "reentry_blocked");
    if o.already_active || !o.registered {
        assert!(o.runs == 0 && o.entered == 0 && o.left == 0, "C16.trap.no_reentry_and_nothing_without_handler");
        assert!(matches!(&r, Ok(x) if x.is_success() && x.is_normal_flow()), "C16.trap.skipped_invocation_is_a_successful_noop");
    } else {
        assert!(o.runs == 1 && o.ran_inside, "C16.trap.handler_runs_once_between_enter_and_leave");
        assert!(o.entered == 1 && o.left == 1, "C18.trap.enter_leave_paired_on_every_path");
        assert!(r.is_err() == o.handler_fails, "C16.trap.handler_error_propagates_after_leave");
        assert!(o.status_seen_by_handler == st, "C16.trap.handler_sees_interrupted_status");
        assert!(o.pg_same, "C16.trap.handler_runs_in_shell_process_group");
        if let Ok(x) = &r { assert!(u8::from(x.exit_code) == o.new_status && matches!(x.next_control_flow, crate::ExecutionControlFlow::ExitShell) == o.handler_flow_exit, "C16.trap.handler_result_returned_unchanged"); }
    }
    assert!(shell.last_exit_status() == st, "C16.trap.dollar_question_preserved");
    std::mem::forget(r); std::mem::forget(p); std::mem::forget(shell);
}

//@proof {'props': ['C16'], 'tier': 'quick', 'timeout': 900, 'uses': ['on_exit'], 'bounds': 'EXIT registered? symbolic; the invocation may fail', 'desc': 'on_exit invokes the EXIT handler exactly once iff one is registered and propagates its failure; with nothing registered it does nothing'}
#[kani::proof]
#[kani::unwind(4)]
#[kani::stub(std::hash::RandomState::new, crate::vk_prelude::stub_random_state_new)]
#[kani::stub(std::time::SystemTime::now, crate::vk_prelude::stub_now)]
fn vk_c16_on_exit() {
    let mut shell: Sh = crate::Shell::default();
    let mut o = TOracle::new();
    let r = t_on_exit(&mut shell, &mut o);
    kani::cover!(o.registered && o.invoke_fails, "exit_handler_fails");
    assert!(o.invokes == if o.registered { 1 } else { 0 }, "C16.on_exit.invokes_exit_handler_exactly_once_iff_registered");
    assert!(r.is_err() == (o.registered && o.invoke_fails), "C16.on_exit.result");
    std::mem::forget(r); std::mem::forget(shell);
}

//@proof {'props': ['C16'], 'tier': 'quick', 'timeout': 1200, 'uses': ['invoke', 'enter_trap', 'leave_trap'], 'bounds': 'outer signal EXIT; a command inside the EXIT handler fires the ERR trap (one nested step); statuses symbolic', 'desc': 'nested traps: an ERR handler running inside the EXIT handler sees the failing status, is itself balanced and restores $? for the rest of the EXIT handler; when the EXIT handler finishes, $? is again the terminating status the shell had before the EXIT trap (so the process exits with it)'}
#[kani::proof]
#[kani::unwind(4)]
#[kani::stub(std::hash::RandomState::new, crate::vk_prelude::stub_random_state_new)]
#[kani::stub(std::time::SystemTime::now, crate::vk_prelude::stub_now)]
fn vk_c16_trap_nested_status() {
    let mut shell: Sh = crate::Shell::default();
    let st: u8 = kani::any();
    shell.set_last_exit_status(st);
    let mut o = TOracle::new();
    o.already_active = false; o.registered = true; o.nest = true; o.handler_fails = false; o.entered_signal_ok = true;
    let p = shell.default_exec_params();
    let r = t_invoke(&mut shell, TrapSignal::Exit, &p, &mut o);
    kani::cover!(o.nested_runs == 1 && st == 5 && o.new_status == 1, "err_trap_inside_exit_trap_after_exit_5");
    assert!(o.runs == 1 && o.nested_runs == 1, "C16.nested.both_handlers_run_once");
    assert!(o.nested_status == o.new_status, "C16.nested.inner_handler_sees_the_failing_status");
    assert!(o.nested_balanced, "C16.nested.inner_step_balanced_and_restores_status");
    assert!(o.entered == 1 && o.left == 1, "C18.nested.outer_enter_leave_paired");
    assert!(shell.last_exit_status() == st, "C16.nested.terminating_status_restored_after_outer_handler");
    std::mem::forget(r); std::mem::forget(p); std::mem::forget(shell);
}

//@proof {'props': ['C16'], 'tier': 'thorough', 'timeout': 1800, 'uses': ['invoke', 'enter_trap', 'leave_trap'], 'bounds': 'outer signal ERR; a command inside the ERR handler ends the shell and fires the EXIT trap (one nested step); statuses symbolic', 'desc': 'nested traps, the other way round: an EXIT handler running inside the ERR handler is balanced and restores $? for the rest of the ERR handler; afterwards $? is the status that triggered ERR'}
#[kani::proof]
#[kani::unwind(4)]
#[kani::stub(std::hash::RandomState::new, crate::vk_prelude::stub_random_state_new)]
#[kani::stub(std::time::SystemTime::now, crate::vk_prelude::stub_now)]
fn vk_c16_trap_nested_exit_inside_err() {
    let mut shell: Sh = crate::Shell::default();
    let st: u8 = kani::any();
    shell.set_last_exit_status(st);
    let mut o = TOracle::new();
    o.already_active = false; o.registered = true; o.nest = true; o.handler_fails = false; o.entered_signal_ok = false;
    let p = shell.default_exec_params();
    let r = t_invoke(&mut shell, TrapSignal::Err, &p, &mut o);
    kani::cover!(o.nested_runs == 1 && st == 2, "exit_trap_inside_err_trap");
    assert!(o.runs == 1 && o.nested_runs == 1, "C16.nested.both_handlers_run_once");
    assert!(o.nested_balanced, "C16.nested.inner_step_balanced_and_restores_status");
    assert!(o.entered == 1 && o.left == 1, "C18.nested.outer_enter_leave_paired");
    assert!(shell.last_exit_status() == st, "C16.nested.triggering_status_restored_after_outer_handler");
    std::mem::forget(r); std::mem::forget(p); std::mem::forget(shell);
}
