/*@meta
{
 'package': 'brush-core',
 'host': 'brush-core/src/shell/traps.rs',
 'stubs': ['tracing -> no-op stub crate', 'std::hash::RandomState::new -> fixed keys', 'std::time::SystemTime::now -> UNIX_EPOCH',
           'call_stack().is_trap_signal_active(signal) -> symbolic input (the inductive hypothesis: some enclosing invocation of this signal\'s handler may be running)',
           'traps.get_handler(signal).cloned() -> oracle (registered: symbolic)', 'enter_trap_handler / leave_trap_handler -> counting oracles (their symmetry is discharged on the re-instantiated callstack.rs)',
           'run_string(handler) -> oracle: sets $? to an arbitrary value, may return Err, may request exit'],
 'assumptions': ['one step of the trap protocol from an arbitrary enclosing state; nesting by induction on depth', 'signals EXIT and ERR'],
 'out_of_claim': ['brush-shell entry.rs and interactive_shell.rs (binary-side front-ends)', '`exit` inside handlers changing the process status', 'exec', 'signal traps and DEBUG/RETURN', 'ordering relative to output', 'the trap builtin'],
}
@*/
/*@recipes
{
 'invoke': {'file': 'brush-core/src/shell/traps.rs', 'start': r'pub\(crate\) async fn invoke_trap_handler\(', 'mode': 'fn_body', 'self_to': 'this', 'deasync': True,
            'rewrites': [[r'this\.call_stack\(\)\.is_trap_signal_active\(signal\)', r'__o.is_active(signal)', 1],
                         [r'this\.traps\.get_handler\(signal\)\.cloned\(\)', r'__o.handler(signal)', 1],
                         [r'this\.enter_trap_handler\(signal, Some\(&handler\)\)', r'__o.enter(signal)', 1],
                         [r'this\s*\.run_string\(&handler\.command, &handler\.source_info, &params\)', r'__o.run_handler(this, &params)', 1],
                         [r'this\.leave_trap_handler\(\)', r'__o.leave()', 1]]},
 'on_exit': {'file': 'brush-core/src/shell/traps.rs', 'start': r'pub async fn on_exit\(&mut self\)', 'mode': 'fn_body', 'self_to': 'this', 'deasync': True,
            'rewrites': [[r'this\.traps\.handles\(TrapSignal::Exit\)', r'__o.handles_exit()', 1],
                         [r'this\.invoke_trap_handler\(TrapSignal::Exit, &this\.default_exec_params\(\)\)', r'__o.invoke(this, TrapSignal::Exit)', 1]]},
}
@*/
use super::*;
use crate::vk_prelude::*;

type Sh = crate::Shell<crate::extensions::DefaultShellExtensions>;

pub struct TOracle {
    pub already_active: bool, pub registered: bool, pub handler_fails: bool, pub new_status: u8, pub handler_flow_exit: bool,
    pub entered: u8, pub left: u8, pub runs: u8, pub ran_inside: bool, pub entered_signal_ok: bool, pub status_seen_by_handler: u8, pub pg_same: bool,
    pub invokes: u8, pub invoke_fails: bool,
}
impl TOracle {
    pub fn new() -> Self {
        TOracle { already_active: kani::any(), registered: kani::any(), handler_fails: kani::any(), new_status: kani::any(), handler_flow_exit: kani::any(),
                  entered: 0, left: 0, runs: 0, ran_inside: false, entered_signal_ok: true, status_seen_by_handler: 0, pg_same: false, invokes: 0, invoke_fails: kani::any() }
    }
    fn is_active(&self, _s: TrapSignal) -> bool { self.already_active }
    fn handler(&self, _s: TrapSignal) -> Option<crate::traps::TrapHandler> { if self.registered { Some(crate::traps::TrapHandler::default()) } else { None } }
    fn enter(&mut self, _s: TrapSignal) { self.entered += 1; }
    fn leave(&mut self) { self.left += 1; }
    fn run_handler(&mut self, shell: &mut Sh, p: &ExecutionParameters) -> Result<ExecutionResult, error::Error> {
        self.runs += 1;
        self.ran_inside = self.entered == 1 && self.left == 0;
        self.status_seen_by_handler = shell.last_exit_status();
        self.pg_same = matches!(p.process_group_policy, ProcessGroupPolicy::SameProcessGroup);
        shell.set_last_exit_status(self.new_status);
        if self.handler_fails { return Err(error::ErrorKind::NotArray.into()); }
        let mut r = ExecutionResult::new(self.new_status);
        if self.handler_flow_exit { r.next_control_flow = crate::ExecutionControlFlow::ExitShell; }
        Ok(r)
    }
    fn handles_exit(&self) -> bool { self.registered }
    fn invoke(&mut self, _shell: &mut Sh, _s: TrapSignal) -> Result<ExecutionResult, error::Error> {
        self.invokes += 1;
        if self.invoke_fails { Err(error::ErrorKind::NotArray.into()) } else { Ok(ExecutionResult::success()) }
    }
}

fn t_invoke(this: &mut Sh, signal: TrapSignal, params: &ExecutionParameters, __o: &mut TOracle) -> Result<ExecutionResult, error::Error> {
/*@LIFT invoke*/
}
fn t_on_exit(this: &mut Sh, __o: &mut TOracle) -> Result<(), error::Error> {
/*@LIFT on_exit*/
}

//@proof {'props': ['C16', 'C18'], 'tier': 'quick', 'timeout': 900, 'uses': ['invoke'], 'bounds': 'signal in {EXIT, ERR}; already-active, registered, handler outcome (status, Err, exit request), $? before - all symbolic; errtrace option symbolic; top-level shell (not in a function or subshell)', 'desc': 'one step of the trap protocol: nothing runs and nothing is pushed if the signal is already active or nothing is registered; otherwise the handler runs exactly once strictly between one enter and one leave, also when it fails; the handler sees the interrupted status in $? and $? afterwards equals $? before'}
#[kani::proof]
#[kani::unwind(4)]
#[kani::stub(std::hash::RandomState::new, crate::vk_prelude::stub_random_state_new)]
#[kani::stub(std::time::SystemTime::now, crate::vk_prelude::stub_now)]
fn vk_c16_trap_step() {
    let mut shell: Sh = crate::Shell::default();
    let which: bool = kani::any();
    let signal = if which { TrapSignal::Exit } else { TrapSignal::Err };
    shell.options_mut().shell_functions_inherit_err_trap = kani::any();
    let st: u8 = kani::any();
    shell.set_last_exit_status(st);
    let mut o = TOracle::new();
    let p = shell.default_exec_params();
    let r = t_invoke(&mut shell, signal, &p, &mut o);
    kani::cover!(o.runs == 1 && o.handler_fails, "handler_fails");
    kani::cover!(o.runs == 1 && !o.handler_fails && o.new_status != st, "handler_clobbers_status");
    kani::cover!(o.already_active && o.registered, "reentry_blocked");
    if o.already_active || !o.registered {
        assert!(o.runs == 0 && o.entered == 0 && o.left == 0, "C16.trap.no_reentry_and_nothing_without_handler");
        assert!(matches!(&r, Ok(x) if x.is_success() && x.is_normal_flow()), "C16.trap.skipped_invocation_is_a_successful_noop");
    } else {
        assert!(o.runs == 1 && o.ran_inside, "C16.trap.handler_runs_once_between_enter_and_leave");
        assert!(o.entered == 1 && o.left == 1, "C18.trap.enter_leave_paired_on_every_path");
        assert!(r.is_err() == o.handler_fails, "C16.trap.handler_error_propagates_after_leave");
        assert!(o.status_seen_by_handler == st, "C16.trap.handler_sees_interrupted_status");
        assert!(o.pg_same, "C16.trap.handler_runs_in_shell_process_group");
        if let Ok(x) = &r { assert!(u8::from(x.exit_code) == o.new_status && matches!(x.next_control_flow, crate::ExecutionControlFlow::ExitShell) == o.handler_flow_exit, "C16.trap.handler_result_returned_unchanged"); }
    }
    assert!(shell.last_exit_status() == st, "C16.trap.dollar_question_preserved");
    std::mem::forget(r); std::mem::forget(p); std::mem::forget(shell);
}

//@proof {'props': ['C16'], 'tier': 'quick', 'timeout': 900, 'uses': ['on_exit'], 'bounds': 'EXIT registered? symbolic; the invocation may fail', 'desc': 'on_exit invokes the EXIT handler exactly once iff one is registered and propagates its failure; with nothing registered it does nothing'}
#[kani::proof]
#[kani::unwind(4)]
#[kani::stub(std::hash::RandomState::new, crate::vk_prelude::stub_random_state_new)]
#[kani::stub(std::time::SystemTime::now, crate::vk_prelude::stub_now)]
fn vk_c16_on_exit() {
    let mut shell: Sh = crate::Shell::default();
    let mut o = TOracle::new();
    let r = t_on_exit(&mut shell, &mut o);
    kani::cover!(o.registered && o.invoke_fails, "exit_handler_fails");
    assert!(o.invokes == if o.registered { 1 } else { 0 }, "C16.on_exit.invokes_exit_handler_exactly_once_iff_registered");
    assert!(r.is_err() == (o.registered && o.invoke_fails), "C16.on_exit.result");
    std::mem::forget(r); std::mem::forget(shell);
}
