/*@meta
{
 'package': 'brush-core',
 'host': 'brush-core/src/expansion.rs',
 'stubs': ['std::fmt::format -> empty string (the text of the error message is not the subject)', 'offset.eval(..).await / length.eval(..).await -> oracle returning arbitrary i64',
           'the expanded parameter -> probe with the same member names (polymorphic_len(), from_array, polymorphic_subslice(start, end)); the probe\'s polymorphic_subslice checks the callee\'s precondition 0 <= start <= end <= len and records the pair'],
 'assumptions': ['value length (characters or array elements) any usize <= 2^32; offset and length any i64'],
 'out_of_claim': ['operator recognition by the word grammar (`%%` before `%`, `:-` before `:offset`)', 'slicing of string contents once (start, end) are right (polymorphic_subslice on strings: allocation with symbolic size)',
                  'character counting of multi-byte values (polymorphic_len counts bytes: reading result D18)', '${v/p/r}', 'case modification', '${!v}', '@Q and friends', 'agreement of pattern matching with bash (C08)'],
}
@*/
/*@recipes
{
 'substring': {'file': 'brush-core/src/expansion.rs', 'start': r'^\s*#\[expect\(clippy::cast_possible_wrap\)\]\s*let expanded_parameter_len = expanded_parameter\.polymorphic_len\(\) as i64;', 'mode': 'until',
               'end': r'^\s*brush_parser::word::ParameterExpr::Transform \{',
               'rewrites': [[r'offset\.eval\(self\.shell, self\.params, false\)\s*\.await', '__o.offset()', 1],
                            [r'length\.eval\(self\.shell, self\.params, false\)\s*\.await', '__o.length()', 1]]},
}
@*/
use super::*;
use crate::vk_prelude::*;

pub struct ArithOracle { pub off: i64, pub len: i64, pub offset_evals: u8, pub length_evals: u8 }
impl ArithOracle {
    fn offset(&mut self) -> Result<i64, error::Error> { self.offset_evals += 1; Ok(self.off) }
    fn length(&mut self) -> Result<i64, error::Error> { self.length_evals += 1; Ok(self.len) }
}
pub struct Slice { pub start: usize, pub end: usize }
pub struct ExpProbe { pub n: usize, pub from_array: bool }
impl ExpProbe {
    pub fn polymorphic_len(&self) -> usize { self.n }
    pub fn polymorphic_subslice(&self, index: usize, end: usize) -> Slice {
        // precondition of Expansion::polymorphic_subslice: its first statement is `end - index`,
        // its array branch indexes fields[index..index + min(len, fields.len() - index)]
        assert!(index <= end, "C06.substring.callee_precondition_start_le_end");
        assert!(end <= self.n, "C06.substring.callee_precondition_end_le_len");
        Slice { start: index, end }
    }
}

fn k_substring(expanded_parameter: ExpProbe, length: Option<()>, __o: &mut ArithOracle) -> Result<Slice, error::Error> {
    let mut expanded_parameter = expanded_parameter;
/*@LIFT substring*/

/// bash's rule (subst.c verify_substring_values): Ok((start, end)) or Err for "substring expression < 0"
fn reference(n: i64, from_array: bool, off: i64, len: Option<i64>) -> Result<(i64, i64), ()> {
    let mut s = off;
    if s < 0 { s += n; }
    if s < 0 || s > n { return Ok((n, n)); }              // out of range: empty, length not consulted
    match len {
        None => Ok((s, n)),
        Some(l) if l >= 0 => { let room = n - s; Ok((s, s + if l < room { l } else { room })) }
        Some(l) => {
            if from_array { return Err(()); }
            let e = n + l;                                 // negative length counts back from the end
            if e < s { Err(()) } else { Ok((s, e)) }
        }
    }
}

fn substring_harness(from_array: bool) {
    let n: usize = kani::any();
    kani::assume(n <= (1usize << 32));
    let has_len: bool = kani::any();
    let mut o = ArithOracle { off: kani::any(), len: kani::any(), offset_evals: 0, length_evals: 0 };
    let r = k_substring(ExpProbe { n, from_array }, if has_len { Some(()) } else { None }, &mut o);
    let exp = reference(n as i64, from_array, o.off, if has_len { Some(o.len) } else { None });
    kani::cover!(has_len && o.len < 0 && o.off == 2 && n == 3, "negative_length_before_start");      // D1 shape: x=abc ${x:2:-5}
    kani::cover!(has_len && o.len == -1 && o.off == 2 && n == 6 && (from_array || r.is_ok()), "negative_length_is_end_position");  // D17 shape
    kani::cover!(o.off == i64::MIN, "offset_min");
    kani::cover!(has_len && o.len == i64::MAX && o.off > 0, "length_max");
    assert!(o.offset_evals == 1, "C06.substring.offset_evaluated_once");
    match (r, exp) {
        (Ok(s), Ok((a, b))) => { assert!(s.start as i64 == a && s.end as i64 == b, "C06.substring.indices_match_bash_rule"); }
        (Err(e), Err(())) => { std::mem::forget(e); }
        (Ok(_), Err(())) => { assert!(false, "C06.substring.must_fail_where_bash_fails"); }
        (Err(e), Ok(_)) => { std::mem::forget(e); assert!(false, "C06.substring.must_not_fail_where_bash_succeeds"); }
    }
}

//@proof {'props': ['C06', 'C01'], 'tier': 'quick', 'timeout': 900, 'bounds': 'scalar value of length <= 2^32; offset, length any i64 (length optional)', 'render': 'substring', 'desc': '${v:o:l} index arithmetic on a string: no overflow, callee precondition 0<=start<=end<=len, (start,end) equal bash\'s rule, error exactly where bash reports "substring expression < 0" (D1, D17)'}
#[kani::proof]
#[kani::unwind(2)]
#[kani::stub(std::fmt::format, crate::vk_prelude::stub_fmt_format)]
fn vk_c06_substring_scalar() { substring_harness(false); }

//@proof {'props': ['C06', 'C01'], 'tier': 'quick', 'timeout': 900, 'bounds': 'array / positional list of <= 2^32 elements; offset, length any i64', 'render': 'substring', 'desc': '${a[@]:o:l} / ${@:o:l} index arithmetic: as above; a negative length is an error for arrays'}
#[kani::proof]
#[kani::unwind(2)]
#[kani::stub(std::fmt::format, crate::vk_prelude::stub_fmt_format)]
fn vk_c06_substring_array() { substring_harness(true); }
