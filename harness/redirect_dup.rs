/*@meta
{
 'package': 'brush-core',
 'host': 'brush-core/src/interp.rs',
 'stubs': ['tracing -> no-op stub crate',
           'transplants of the `IoFileRedirectTarget::Duplicate(word)` and `IoFileRedirectTarget::Fd(fd)` arms of setup_redirect on a duck-typed descriptor table (10 slots holding file tokens)',
           'the expanded word -> a token answering ends_with / pop / is_empty / chars().all(digit) / parse from its symbolic shape: "", "-", "M", "M-", "name", "name-"',
           'setup_redirect_output_and_error_to -> recorder', '`Vec` -> vk_prelude::ArrVec'],
 'assumptions': ['descriptors 0..9', 'the word expands to 0..2 fields'],
 'out_of_claim': ['what the descriptors are connected to', 'left-to-right order among several redirections (simple_cmd_items)', 'restoration after the command', 'the text of the word (digits vs. name is an oracle)'],
}
@*/
/*@recipes
{
 'dup_arm': {'file': 'brush-core/src/interp.rs', 'start': r'ast::IoFileRedirectTarget::Duplicate\(word\) => ', 'mode': 'fn_body',
        'rewrites': [[r'expansion::full_expand_and_split_word\(shell, params, word\)\s*\.await', r'__o.expand()', 1],
                     [r'(?s)setup_redirect_output_and_error_to\(\s*shell,\s*params,\s*&expanded,\s*false,[^)]*\)', r'__o.both_to_file(params)', 1]]},
 'fd_arm': {'file': 'brush-core/src/interp.rs', 'start': r'ast::IoFileRedirectTarget::Fd\(fd\) => ', 'mode': 'fn_body'},
}
@*/
use super::{ast, error, ShellFd};
use crate::vk_prelude::ArrVec as Vec;

/// shape of the expanded word: 0 "", 1 "-", 2 "M", 3 "M-", 4 "name", 5 "name-"
#[derive(Clone, Copy)]
pub struct Fld { pub shape: u8, pub m: ShellFd, pub dash_present: bool, pub parse_overflows: bool }
pub struct OneChar { c: char, done: bool }
impl Iterator for OneChar { type Item = char; fn next(&mut self) -> Option<char> { if self.done { None } else { self.done = true; Some(self.c) } } }
impl Fld {
    pub fn ends_with(&self, _c: char) -> bool { self.dash_present }
    pub fn pop(&mut self) -> Option<char> { if self.dash_present { self.dash_present = false; Some('-') } else { None } }
    pub fn is_empty(&self) -> bool { self.shape <= 1 && !self.dash_present }
    pub fn chars(&self) -> OneChar { OneChar { c: if self.shape == 2 || self.shape == 3 { '7' } else { 'f' }, done: self.shape <= 1 } }
    pub fn parse<T: From<i32>>(&self) -> Result<T, ()> { if self.parse_overflows { Err(()) } else { Ok(T::from(self.m)) } }
}
pub struct DOpenFiles { pub fds: [Option<u8>; 10], pub sets: u8, pub removes: u8 }
impl DOpenFiles {
    pub fn set_fd(&mut self, fd: ShellFd, f: u8) { self.sets += 1; if fd >= 0 && fd < 10 { self.fds[fd as usize] = Some(f); } }
    pub fn remove_fd(&mut self, fd: ShellFd) -> Option<u8> { self.removes += 1; if fd >= 0 && fd < 10 { self.fds[fd as usize].take() } else { None } }
}
pub struct DSh;
pub struct DParams { pub open_files: DOpenFiles, pub both: u8 }
impl DParams { pub fn try_fd(&self, _s: &DSh, fd: ShellFd) -> Option<u8> { if fd >= 0 && fd < 10 { self.open_files.fds[fd as usize] } else { None } } }
pub struct XOracle { pub nfields: usize, pub fld: Fld }
impl XOracle {
    fn expand(&mut self) -> Result<Vec<Fld>, error::Error> { let mut v = Vec::new(); if self.nfields >= 1 { v.push(self.fld); } if self.nfields >= 2 { v.push(self.fld); } Ok(v) }
    fn both_to_file(&mut self, p: &mut DParams) -> Result<(), error::Error> { p.both += 1; Ok(()) }
}

fn t_dup_arm(shell: &mut DSh, params: &mut DParams, specified_fd_num: &Option<ShellFd>, kind: &ast::IoFileRedirectKind, __o: &mut XOracle) -> Result<(), error::Error> {
    {
/*@LIFT dup_arm*/
    }
    Ok(())
}
fn t_fd_arm(shell: &mut DSh, params: &mut DParams, specified_fd_num: &Option<ShellFd>, kind: &ast::IoFileRedirectKind, fd: &ShellFd) -> Result<(), error::Error> {
    {
/*@LIFT fd_arm*/
    }
    Ok(())
}

fn table() -> ([Option<u8>; 10], [bool; 10]) {
    let open: [bool; 10] = kani::any();
    let mut fds = [None; 10];
    let mut i = 0; while i < 10 { if open[i] { fds[i] = Some(100 + i as u8); } i += 1; }
    (fds, open)
}

//@proof {'props': ['C10'], 'tier': 'quick', 'timeout': 900, 'uses': ['dup_arm'], 'bounds': 'N>&word / N<&word with N explicit 0..9 or defaulted; word shape among "", "-", "M", "M-", "name", "name-" with M in 0..9; an arbitrary table of open descriptors 0..9; 0..2 fields', 'desc': 'descriptor duplication: N>&M makes N refer to what M refers to and leaves every other descriptor (M included) alone; a closed M is "bad file descriptor" and changes nothing; N>&- closes N only; N>&M- moves: N refers to the old M and M is closed; >&name (N = 1, no dash) sends stdout and stderr to the file; anything else is an invalid redirection; the default N is 1 for >& and 0 for <&'}
#[kani::proof]
#[kani::unwind(12)]
fn vk_c10_duplicate_descriptor() {
    let output: bool = kani::any();
    let kind = if output { ast::IoFileRedirectKind::DuplicateOutput } else { ast::IoFileRedirectKind::DuplicateInput };
    let nspec: Option<ShellFd> = if kani::any() { let n: ShellFd = kani::any(); kani::assume(n >= 0 && n <= 9); Some(n) } else { None };
    let n = nspec.unwrap_or(if output { 1 } else { 0 });
    let shape: u8 = kani::any(); kani::assume(shape < 6);
    let m: ShellFd = kani::any(); kani::assume(m >= 0 && m <= 9);
    let fld = Fld { shape, m, dash_present: shape == 1 || shape == 3 || shape == 5, parse_overflows: false };
    let (fds, open) = table();
    let mut params = DParams { open_files: DOpenFiles { fds, sets: 0, removes: 0 }, both: 0 };
    let mut o = XOracle { nfields: kani::any(), fld }; kani::assume(o.nfields <= 2);
    let mut sh = DSh;
    let r = t_dup_arm(&mut sh, &mut params, &nspec, &kind, &mut o);
    let after = params.open_files.fds;
    let unchanged_except = |a: ShellFd, b: ShellFd| { let mut ok = true; let mut i = 0; while i < 10 { if i as ShellFd != a && i as ShellFd != b && after[i] != fds[i] { ok = false; } i += 1; } ok };
    kani::cover!(o.nfields == 1 && shape == 3 && open[m as usize] && m != n, "move_form");
    kani::cover!(o.nfields == 1 && shape == 2 && !open[m as usize], "duplicate_of_a_closed_descriptor");
    kani::cover!(o.nfields == 1 && shape == 1, "close_form");
    if o.nfields != 1 {
        assert!(r.is_err() && unchanged_except(-1, -1), "C10.dup.ambiguous_target_is_an_error");
    } else {
        match shape {
            0 => assert!(r.is_ok() && unchanged_except(-1, -1), "C10.dup.empty_word_is_a_noop"),
            1 => assert!(r.is_ok() && after[n as usize].is_none() && unchanged_except(n, -1), "C10.dup.close_closes_exactly_n"),
            2 => {
                if open[m as usize] { assert!(r.is_ok() && after[n as usize] == fds[m as usize] && unchanged_except(n, -1), "C10.dup.n_refers_to_what_m_refers_to_nothing_else_changes"); }
                else { assert!(r.is_err() && unchanged_except(-1, -1), "C10.dup.closed_source_is_bad_file_descriptor"); }
            }
            3 => {
                if open[m as usize] {
                    assert!(r.is_ok(), "C10.move.succeeds");
                    if m != n { assert!(after[n as usize] == fds[m as usize] && after[m as usize].is_none() && unchanged_except(n, m), "C10.move.n_gets_the_file_and_m_is_closed"); }
                    else { assert!(unchanged_except(n, -1), "C10.move.onto_itself_touches_nothing_else"); }
                } else { assert!(r.is_err() && unchanged_except(-1, -1), "C10.dup.closed_source_is_bad_file_descriptor"); }
            }
            4 => {
                if n == 1 { assert!(r.is_ok() && params.both == 1, "C10.dup.amp_file_form_redirects_stdout_and_stderr"); }
                else { assert!(r.is_err() && params.both == 0 && unchanged_except(-1, -1), "C10.dup.name_with_other_descriptor_is_invalid"); }
            }
            _ => assert!(r.is_err() && params.both == 0 && unchanged_except(-1, -1), "C10.dup.name_dash_is_invalid"),
        }
    }
    std::mem::forget(r);
}

//@proof {'props': ['C10'], 'tier': 'quick', 'timeout': 900, 'uses': ['fd_arm'], 'bounds': 'N>&M / N<&M with M given as a parsed descriptor 0..9; N explicit or defaulted; arbitrary table of open descriptors', 'desc': 'the parsed-descriptor form: same contract as N>&M above'}
#[kani::proof]
#[kani::unwind(12)]
fn vk_c10_duplicate_parsed_descriptor() {
    let output: bool = kani::any();
    let kind = if output { ast::IoFileRedirectKind::DuplicateOutput } else { ast::IoFileRedirectKind::DuplicateInput };
    let nspec: Option<ShellFd> = if kani::any() { let n: ShellFd = kani::any(); kani::assume(n >= 0 && n <= 9); Some(n) } else { None };
    let n = nspec.unwrap_or(if output { 1 } else { 0 });
    let m: ShellFd = kani::any(); kani::assume(m >= 0 && m <= 9);
    let (fds, open) = table();
    let mut params = DParams { open_files: DOpenFiles { fds, sets: 0, removes: 0 }, both: 0 };
    let mut sh = DSh;
    let r = t_fd_arm(&mut sh, &mut params, &nspec, &kind, &m);
    let after = params.open_files.fds;
    kani::cover!(open[m as usize] && m != n, "plain_duplicate");
    let mut others_same = true; let mut i = 0; while i < 10 { if i as ShellFd != n && after[i] != fds[i] { others_same = false; } i += 1; }
    if open[m as usize] { assert!(r.is_ok() && after[n as usize] == fds[m as usize] && others_same, "C10.dup.n_refers_to_what_m_refers_to_nothing_else_changes"); }
    else { assert!(r.is_err() && others_same && after[n as usize] == fds[n as usize], "C10.dup.closed_source_is_bad_file_descriptor"); }
    std::mem::forget(r);
}
