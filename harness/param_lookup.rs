/*@meta
{
 'package': 'brush-core',
 'host': 'brush-core/src/expansion.rs',
 'stubs': ['tracing -> no-op stub crate',
           'de-async transplant of WordExpander::expand_parameter_without_indirect (the lookup every parameter expansion starts with) over a duck-typed shell: positional arguments, the environment (one name, present or not) and the variable\'s value are stand-ins with symbolic answers; `ShellValue` / `ShellValueUnsetType` inside the harness module are light enums with the same variant names; `Expansion` is the real type',
           'undefined_expansion (the nounset decision, decided by vk_c03_nounset_decision) -> oracle recording that it was consulted and with which tolerance flag; expand_special_parameter, expand_array_index -> oracles'],
 'assumptions': ['one variable name; its value is declared-unset, a scalar (with or without a readable value), an indexed or an associative array with or without the requested element'],
 'out_of_claim': ['special parameters ($@ $* $# ...)', 'how a value is fetched from an array (BTreeMap / strings)', '`${a[@]}` / `${#a[@]}` of an unset name (bash 5.2 rejects the length form under nounset, brush prints 0: noted)'],
}
@*/
/*@recipes
{
 'lookup': {'file': 'brush-core/src/expansion.rs', 'start': r'^\s*async fn expand_parameter_without_indirect\(', 'mode': 'fn_body', 'self_to': 'this', 'deasync': True,
        'rewrites': [[r'this\s*\.expand_special_parameter\(([^)]*)\)', r'__o.special()', 1],
                     [r'this\s*\.undefined_expansion\(parameter, allow_unset_vars\)', r'__o.undefined(allow_unset_vars)', 1],
                     [r'(?s)this\s*\.expand_array_index\(index\.as_str\(\), is_set_assoc_array\)', r'__o.index()', 1]]},
}
@*/
use super::{env, Expansion, ExpansionPiece, WordField};
/// shadows crate::error inside this module (the real type's drop glue is what makes a refactored lookup intractable)
pub mod error {
    pub struct Error(pub u8);
    pub enum ErrorKind { BadSubstitution(String) }
    impl From<ErrorKind> for Error { fn from(k: ErrorKind) -> Self { std::mem::forget(k); Error(1) } }
}
use std::borrow::Cow;

#[derive(Clone, Copy)]
pub enum ShellValueUnsetType { Untyped, AssociativeArray, IndexedArray }
#[derive(Clone, Copy)]
pub struct VTok { pub readable: bool, pub has_element: bool }
/// same variant names as the real enum; the payload answers the two questions the lookup asks
#[derive(Clone, Copy)]
pub enum ShellValue { Unset(ShellValueUnsetType), String(VTok), AssociativeArray(VTok), IndexedArray(VTok), Dynamic(VTok) }
impl ShellValue {
    fn tok(&self) -> Option<VTok> { match self { ShellValue::Unset(_) => None, ShellValue::String(t) | ShellValue::AssociativeArray(t) | ShellValue::IndexedArray(t) | ShellValue::Dynamic(t) => Some(*t) } }
    pub fn try_get_cow_str(&self, _s: &DSh) -> Option<Cow<'static, str>> { match self.tok() { Some(t) if t.readable => Some(Cow::Borrowed("v")), _ => None } }
    pub fn get_at(&self, _i: &str, _s: &DSh) -> Result<Option<Cow<'static, str>>, error::Error> { match self.tok() { Some(t) if t.has_element => Ok(Some(Cow::Borrowed("e"))), _ => Ok(None) } }
    pub fn element_values(&self, _s: &DSh) -> Vec<String> { Vec::new() }
}
pub struct DVar { pub v: ShellValue }
impl DVar { pub fn value(&self) -> &ShellValue { &self.v } }
pub struct DEnv { pub var: Option<DVar> }
impl DEnv { pub fn get(&self, _n: &String) -> Option<(u8, &DVar)> { self.var.as_ref().map(|v| (0u8, v)) } }
pub struct ArgTok;
impl ArgTok { pub fn to_owned(&self) -> String { String::new() } }
pub struct DArgs { pub n: usize }
static ARG: ArgTok = ArgTok;
impl DArgs { pub fn get(&self, i: usize) -> Option<&ArgTok> { if i < self.n { Some(&ARG) } else { None } } }
pub struct DSh { pub e: DEnv, pub a: DArgs }
impl DSh { pub fn env(&self) -> &DEnv { &self.e } pub fn current_shell_args(&self) -> &DArgs { &self.a } }
pub struct Expander<'a> { pub shell: &'a DSh }
pub struct LOracle { pub undefined_calls: u8, pub flag: bool, pub specials: u8 }
impl LOracle {
    fn special(&mut self) -> Expansion { self.specials += 1; Expansion::default() }
    /// the answer of the nounset decision is tagged `undefined`
    fn undefined(&mut self, allow: bool) -> Result<Expansion, error::Error> { self.undefined_calls += 1; self.flag = allow; Ok(Expansion::undefined()) }
    fn index(&mut self) -> Result<String, error::Error> { Ok(String::new()) }
}

fn t_lookup(this: &mut Expander<'_>, parameter: &brush_parser::word::Parameter, allow_unset_vars: bool, __o: &mut LOracle) -> Result<Expansion, error::Error> {
/*@LIFT lookup*/
}

fn any_value() -> ShellValue {
    let t = VTok { readable: kani::any(), has_element: kani::any() };
    match kani::any::<u8>() % 5 { 0 => ShellValue::Unset(ShellValueUnsetType::Untyped), 1 => ShellValue::Unset(ShellValueUnsetType::IndexedArray), 2 => ShellValue::String(t), 3 => ShellValue::IndexedArray(t), _ => ShellValue::AssociativeArray(t) }
}

//@proof {'props': ['C03', 'C06'], 'tier': 'quick', 'timeout': 900, 'uses': ['lookup'], 'bounds': 'parameter among $1, $2 (1 or 2 positional arguments set), $x, ${x[0]}; x absent / declared but unset / scalar / indexed / associative array, with or without a readable value or the requested element (symbolic); tolerance flag symbolic', 'desc': 'every lookup that finds no value - a positional beyond $#, an absent or declared-but-unset variable, a variable that exists but has no element at the subscript - ends in the nounset decision, with the operator\'s tolerance flag passed unchanged, and yields what the decision yields; a lookup that finds a value never consults it'}
#[kani::proof]
#[kani::unwind(6)]
fn vk_c03_missing_values_go_through_the_nounset_decision() {
    let present: bool = kani::any();
    let val = any_value();
    let sh = DSh { e: DEnv { var: if present { Some(DVar { v: val }) } else { None } }, a: DArgs { n: 1 } };
    let which: u8 = kani::any(); kani::assume(which < 4);
    let p = match which {
        0 => brush_parser::word::Parameter::Positional(1),
        1 => brush_parser::word::Parameter::Positional(2),
        2 => brush_parser::word::Parameter::Named(String::from("x")),
        _ => brush_parser::word::Parameter::NamedWithIndex { name: String::from("x"), index: String::from("0") },
    };
    let allow: bool = kani::any();
    let mut o = LOracle { undefined_calls: 0, flag: false, specials: 0 };
    let mut ex = Expander { shell: &sh };
    let r = t_lookup(&mut ex, &p, allow, &mut o);
    let tok = val.tok();
    let has_value = match which {
        0 => true,
        1 => false,
        2 => present && matches!(tok, Some(t) if t.readable),
        _ => present && matches!(tok, Some(t) if t.has_element),
    };
    kani::cover!(which == 3 && present && matches!(val, ShellValue::IndexedArray(t) if !t.has_element), "existing_array_without_the_requested_element");
    kani::cover!(which == 2 && present && matches!(val, ShellValue::Unset(_)), "declared_but_unset_variable");
    match &r {
        Ok(e) => {
            if has_value { assert!(o.undefined_calls == 0 && !e.undefined, "C03.lookup.a_found_value_never_consults_the_nounset_decision"); }
            else { assert!(o.undefined_calls == 1 && o.flag == allow && e.undefined, "C03.lookup.every_missing_value_ends_in_the_nounset_decision_with_the_operators_tolerance"); }
        }
        Err(_) => assert!(false, "C03.lookup.no_other_error_for_these_shapes"),
    }
    std::mem::forget(r); std::mem::forget(p);
}
