/*@meta
{
 'package': 'brush-core',
 'host': 'brush-core/src/interp.rs',
 'stubs': ['tracing -> no-op stub crate',
           'de-async lift of the body of the task that spawn_async_ao_list_in_task starts for `list &` (the `async move { .. }` block handed to tokio::spawn) over duck types: the and-or list is an oracle returning any result or an error; the cloned shell counts the errors it is asked to display; error::Error is a light stand-in (its into_result gives the status the real one would: read, not encoded)'],
 'assumptions': ['the job is a task inside the shell process (tokio); scheduling is outside'],
 'out_of_claim': ['that the task is started and registered as a job (jobs_table / jobs_wait)', 'what the error text looks like', 'panics inside the task (JoinError)'],
}
@*/
/*@recipes
{
 'task_body': {'file': 'brush-core/src/interp.rs', 'start': r'let join_handle = tokio::spawn\(async move ', 'mode': 'fn_body', 'deasync': True},
}
@*/
use super::ExecutionResult;

pub mod error {
    pub struct Error(pub u8);
    impl Error { pub fn into_result(self, _s: &super::DSh) -> super::ExecutionResult { super::ExecutionResult::new(self.0) } }
}
pub struct Sink;
impl std::io::Write for Sink { fn write(&mut self, b: &[u8]) -> std::io::Result<usize> { Ok(b.len()) } fn flush(&mut self) -> std::io::Result<()> { Ok(()) } fn write_fmt(&mut self, _a: std::fmt::Arguments<'_>) -> std::io::Result<()> { Ok(()) } }
pub struct DSh { pub displayed: u8 }
impl DSh { pub fn display_error(&mut self, _w: &mut Sink, _e: &error::Error) -> Result<(), error::Error> { self.displayed += 1; Ok(()) } }
pub struct DParams;
impl DParams { pub fn stderr(&self, _s: &DSh) -> Sink { Sink } }
pub struct DList { pub outcome: Result<u8, u8>, pub runs: u8 }
impl DList { pub fn execute(&mut self, _s: &mut DSh, _p: &DParams) -> Result<ExecutionResult, error::Error> { self.runs += 1; match self.outcome { Ok(c) => Ok(ExecutionResult::new(c)), Err(e) => Err(error::Error(e)) } } }

#[allow(unused_mut)]
fn t_task_body(mut cloned_ao_list: DList, mut cloned_shell: DSh, cloned_params: DParams, probe: &mut (u8, u8)) -> Result<ExecutionResult, error::Error> {
    let r = {
/*@LIFT task_body*/
    };
    *probe = (cloned_ao_list.runs, cloned_shell.displayed);
    r
}

//@proof {'props': ['C17', 'C01'], 'tier': 'quick', 'timeout': 600, 'uses': ['task_body'], 'bounds': 'the background list ends with any status, or with a shell-level error (symbolic)', 'desc': 'a background job is its own little shell: a fatal error inside it (`echo $((1/0)) &`, `: ${x?} &`) is reported by the job, once, and becomes the job\'s status - the task never ends in an error that a later `wait` would have to swallow, report as its own failure, or die of under `set -e`'}
#[kani::proof]
#[kani::unwind(3)]
fn vk_c17_background_job_reports_its_own_errors() {
    let outcome: Result<u8, u8> = if kani::any() { Ok(kani::any()) } else { Err(kani::any()) };
    let mut probe = (0u8, 0u8);
    let r = t_task_body(DList { outcome, runs: 0 }, DSh { displayed: 0 }, DParams, &mut probe);
    kani::cover!(outcome.is_err(), "job_with_a_fatal_error");
    assert!(probe.0 == 1, "C17.job.list_run_once");
    match (&r, outcome) {
        (Ok(x), Ok(c)) => assert!(u8::from(x.exit_code) == c && probe.1 == 0, "C17.job.status_is_the_lists"),
        (Ok(x), Err(e)) => assert!(u8::from(x.exit_code) == e && probe.1 == 1, "C17.job.error_reported_once_and_turned_into_the_status"),
        (Err(_), _) => assert!(false, "C17.job.a_background_job_never_ends_in_an_error_for_wait_to_trip_over"),
    }
    std::mem::forget(r);
}
