/*@meta
{
 'package': 'brush-core',
 'host': 'brush-core/src/jobs.rs',
 'direct': ['JobManager::add_as_current', 'JobManager::resolve_job_spec (numeric form)', 'JobManager::current_job'],
 'stubs': ['tracing -> no-op stub crate'],
 'assumptions': ['job tables are concrete-shaped Vecs of 0..3 jobs with empty task lists; ids are symbolic in 1..=8'],
 'out_of_claim': ['that awaiting a task means its effects are visible (tokio / kernel happens-before)', 'output ordering of background jobs',
                  'the wait/jobs/fg/bg builtins and `wait` with arguments', 'job tables with more than 3 live jobs (covered only by the inductive-step argument)'],
}
@*/
use super::*;
use crate::vk_prelude::*;

fn mk_job(id: usize, ann: u8) -> Job {
    // an entry may be running, stopped, or finished-but-not-yet-swept (after `wait %n`): all three own their number
    let st = match any_below(3) { 0 => JobState::Running, 1 => JobState::Stopped, _ => JobState::Done };
    let mut j = Job::new(Vec::new(), String::new(), st);
    j.id = id;
    j.annotation = match ann {
        0 => JobAnnotation::None,
        1 => JobAnnotation::Current,
        _ => JobAnnotation::Previous,
    };
    j
}

/// An arbitrary table of `n` live jobs satisfying the representation invariant the property
/// relies on: ids are non-zero and pairwise distinct (symbolic, 1..=8, any order, holes allowed).
fn any_table(n: usize) -> (JobManager, [usize; 3]) {
    let ids: [usize; 3] = [kani::any(), kani::any(), kani::any()];
    let anns: [u8; 3] = [any_below(3), any_below(3), any_below(3)];
    kani::assume(ids[0] >= 1 && ids[0] <= 8 && ids[1] >= 1 && ids[1] <= 8 && ids[2] >= 1 && ids[2] <= 8);
    kani::assume(ids[0] != ids[1] && ids[0] != ids[2] && ids[1] != ids[2]);
    // at most one job among the first n is annotated Current (established by add_as_current itself, preserved by removal)
    let cur = |k: usize| -> usize { if k < n && anns[k] == 1 { 1 } else { 0 } };
    kani::assume(cur(0) + cur(1) + cur(2) <= 1);
    let mut jobs = Vec::with_capacity(4);
    if n >= 1 { jobs.push(mk_job(ids[0], anns[0])); }
    if n >= 2 { jobs.push(mk_job(ids[1], anns[1])); }
    if n >= 3 { jobs.push(mk_job(ids[2], anns[2])); }
    (JobManager { jobs }, ids)
}

fn add_step(n: usize) {
    let (mut mgr, ids) = any_table(n);
    // table with a hole: a live id greater than the number of live jobs (the D10 shape)
    kani::cover!(n < 2 || (ids[0] == 2 && ids[1] == 3), "table_with_hole");
    let newjob = Job::new(Vec::new(), String::new(), JobState::Running);
    let new_id = mgr.add_as_current(newjob).id;
    assert!(mgr.jobs.len() == n + 1, "C17.add.len");
    assert!(new_id >= 1, "C17.add.id_nonzero");
    // live jobs carry distinct job numbers: the fresh id differs from every live id
    if n >= 1 { assert!(new_id != ids[0], "C17.add.fresh_vs_job0"); }
    if n >= 2 { assert!(new_id != ids[1], "C17.add.fresh_vs_job1"); }
    if n >= 3 { assert!(new_id != ids[2], "C17.add.fresh_vs_job2"); }
    // existing jobs keep their numbers and positions
    if n >= 1 { assert!(mgr.jobs[0].id == ids[0], "C17.add.keeps_job0"); }
    if n >= 2 { assert!(mgr.jobs[1].id == ids[1], "C17.add.keeps_job1"); }
    if n >= 3 { assert!(mgr.jobs[2].id == ids[2], "C17.add.keeps_job2"); }
    // the new job is the one `%+` / `%%` resolves to
    assert!(mgr.jobs[n].id == new_id && mgr.jobs[n].is_current(), "C17.add.new_is_current");
    let cur = mgr.current_job().map(|j| j.id);
    assert!(cur == Some(new_id), "C17.add.current_lookup");
    std::mem::forget(mgr);
}

//@proof {'props': ['C17'], 'tier': 'quick', 'setup': True, 'timeout': 300, 'confirm': ['vk_c17_history_ids', 'vk_c17_history_ids_after_individual_wait'], 'bounds': '2 live jobs, ids 1..=8 symbolic, one add', 'desc': 'add_as_current from an arbitrary 2-job table: fresh id distinct from every live id (one inductive step)'}
#[kani::proof]
#[kani::unwind(5)]
fn vk_c17_add_fresh_id_2() {
    add_step(2);
}

//@proof {'props': ['C17'], 'tier': 'quick', 'timeout': 300, 'confirm': ['vk_c17_history_ids', 'vk_c17_history_ids_after_individual_wait'], 'bounds': '3 live jobs, ids 1..=8 symbolic, one add', 'desc': 'add_as_current from an arbitrary 3-job table'}
#[kani::proof]
#[kani::unwind(5)]
fn vk_c17_add_fresh_id_3() {
    add_step(3);
}

//@proof {'props': ['C17'], 'tier': 'quick', 'timeout': 300, 'confirm': ['vk_c17_history_ids', 'vk_c17_history_ids_after_individual_wait'], 'bounds': '1 live job', 'desc': 'add_as_current on a 1-job table'}
#[kani::proof]
#[kani::unwind(5)]
fn vk_c17_add_fresh_id_1() {
    add_step(1);
}

//@proof {'props': ['C17'], 'tier': 'quick', 'timeout': 300, 'bounds': 'empty table', 'desc': 'add_as_current on an empty table'}
#[kani::proof]
#[kani::unwind(5)]
fn vk_c17_add_fresh_id_0() {
    add_step(0);
}
