/*@meta
{
 'package': 'brush-core',
 'host': 'brush-core/src/callstack.rs',
 'stubs': ['tracing -> no-op stub crate',
           'module re-instantiation: the whole text of callstack.rs is compiled a second time inside the harness module with `std::collections::{HashSet, VecDeque}` replaced by array-backed stand-ins (3-slot deque, 2-slot set) that implement the slice of the std API the file uses'],
 'assumptions': ['the std VecDeque / HashSet contract is what the array-backed stand-ins implement', '<= 3 frames on the stack'],
 'out_of_claim': ['the real VecDeque/HashSet', 'formatting of call stacks', 'source-position bookkeeping'],
}
@*/
/*@recipes
{
 'callstack_file': {'file': 'brush-core/src/callstack.rs', 'mode': 'file',
        'rewrites': [[r'^//![^\n]*$', r'', 1],
                     [r'collections::\{HashSet, VecDeque\},', r'', 1],
                     [r'(?s)#\[cfg\(test\)\]\s*mod tests \{.*\Z', r'', 1]]},
}
@*/
use crate::vk_prelude::*;
use crate::traps::TrapSignal;

pub mod mockcoll {
    // 3-slot deque (front at index 0) and a 2-slot set, with the slice of the std API callstack.rs uses
    #[derive(Clone, Debug)]
    pub struct VecDeque<T> { pub slots: [Option<T>; 3], pub n: usize }
    impl<T> Default for VecDeque<T> { fn default() -> Self { Self { slots: [None, None, None], n: 0 } } }
    impl<T> VecDeque<T> {
        pub fn new() -> Self { Self::default() }
        pub fn push_front(&mut self, t: T) { assert!(self.n < 3, "mock deque capacity"); let c = self.slots[1].take(); self.slots[2] = c; let b = self.slots[0].take(); self.slots[1] = b; self.slots[0] = Some(t); self.n += 1; }
        pub fn pop_front(&mut self) -> Option<T> { let r = self.slots[0].take(); if r.is_some() { let b = self.slots[1].take(); self.slots[0] = b; let c = self.slots[2].take(); self.slots[1] = c; self.n -= 1; } r }
        pub fn front(&self) -> Option<&T> { self.slots[0].as_ref() }
        pub fn front_mut(&mut self) -> Option<&mut T> { self.slots[0].as_mut() }
        pub fn len(&self) -> usize { self.n }
        pub fn is_empty(&self) -> bool { self.n == 0 }
        pub fn iter(&self) -> impl Iterator<Item = &T> { self.slots.iter().filter_map(|s| s.as_ref()) }
        pub fn iter_mut(&mut self) -> impl Iterator<Item = &mut T> { self.slots.iter_mut().filter_map(|s| s.as_mut()) }
        pub fn get(&self, i: usize) -> Option<&T> { if i < 3 { self.slots[i].as_ref() } else { None } }
    }
    impl<T> std::ops::Index<usize> for VecDeque<T> { type Output = T; fn index(&self, i: usize) -> &T { self.slots[i].as_ref().unwrap() } }
    #[derive(Clone, Debug)]
    pub struct HashSet<T> { pub slots: [Option<T>; 2] }
    impl<T> Default for HashSet<T> { fn default() -> Self { Self { slots: [None, None] } } }
    impl<T: PartialEq> HashSet<T> {
        pub fn new() -> Self { Self::default() }
        pub fn insert(&mut self, t: T) -> bool { if self.contains(&t) { return false; } if self.slots[0].is_none() { self.slots[0] = Some(t); } else { assert!(self.slots[1].is_none(), "mock set capacity"); self.slots[1] = Some(t); } true }
        pub fn remove(&mut self, t: &T) -> bool { if self.slots[0].as_ref() == Some(t) { self.slots[0] = None; true } else if self.slots[1].as_ref() == Some(t) { self.slots[1] = None; true } else { false } }
        pub fn contains(&self, t: &T) -> bool { self.slots[0].as_ref() == Some(t) || self.slots[1].as_ref() == Some(t) }
        pub fn clear(&mut self) { self.slots = [None, None]; }
        pub fn is_empty(&self) -> bool { self.slots[0].is_none() && self.slots[1].is_none() }
    }
}

#[allow(unnameable_types, missing_docs, dead_code, unused)]
pub mod rehosted_cs {
    use super::mockcoll::{HashSet, VecDeque};
/*@LIFT callstack_file*/
}
use rehosted_cs::{CallStack, ScriptCallType};

fn reg() -> crate::functions::Registration {
    let def = brush_parser::ast::FunctionDefinition {
        fname: brush_parser::ast::Word::new(""),
        body: brush_parser::ast::FunctionBody(
            brush_parser::ast::CompoundCommand::BraceGroup(brush_parser::ast::BraceGroupCommand { list: brush_parser::ast::CompoundList(Vec::new()), loc: Default::default() }),
            None,
        ),
    };
    crate::functions::Registration::from(def)
}

//@proof {'props': ['C16', 'C18'], 'tier': 'quick', 'timeout': 900, 'uses': ['callstack_file'], 'bounds': 'base frame + trap frame (EXIT or ERR, symbolic) + optional nested trap frame of the other signal', 'desc': 'a trap frame marks exactly its own signal as active; popping an inner trap frame never clears the outer handler\'s mark; depth and the function / source counters return to their previous values'}
#[kani::proof]
#[kani::unwind(5)]
fn vk_c16_callstack_trap_frames() {
    let mut st = CallStack::new();
    st.push_command_string();
    let d0 = st.depth();
    let a: bool = kani::any();
    let s1 = if a { TrapSignal::Exit } else { TrapSignal::Err };
    let s2 = if a { TrapSignal::Err } else { TrapSignal::Exit };
    assert!(!st.is_trap_signal_active(s1) && !st.is_trap_signal_active(s2), "C16.callstack.nothing_active_initially");
    st.push_trap_handler(s1, None);
    assert!(st.is_trap_signal_active(s1) && !st.is_trap_signal_active(s2) && st.depth() == d0 + 1, "C16.callstack.push_marks_own_signal_only");
    let nested: bool = kani::any();
    if nested {
        st.push_trap_handler(s2, None);
        assert!(st.is_trap_signal_active(s2) && st.is_trap_signal_active(s1), "C16.callstack.nested_both_active");
        let f = st.pop(); std::mem::forget(f);
        assert!(!st.is_trap_signal_active(s2), "C16.callstack.pop_unmarks_popped_signal");
    }
    assert!(st.is_trap_signal_active(s1), "C16.callstack.inner_pop_keeps_outer_mark");
    let f = st.pop(); std::mem::forget(f);
    assert!(!st.is_trap_signal_active(s1) && st.depth() == d0, "C18.callstack.trap_pop_restores_depth_and_mark");
    assert!(st.function_call_depth() == 0 && st.script_source_depth() == 0, "C18.callstack.counters_untouched_by_trap_frames");
    kani::cover!(nested, "nested_trap");
    std::mem::forget(st);
}

//@proof {'props': ['C18'], 'tier': 'quick', 'timeout': 900, 'uses': ['callstack_file'], 'bounds': 'base frame; one or two pushes of symbolic kind in {function, sourced script, run script, eval, trap EXIT}; matching pops', 'desc': 'push_* followed by pop restores depth(), function_call_depth(), script_source_depth(), in_function(), in_sourced_script() and the active-trap marks to their values before the push, for every frame kind and for two nested frames'}
#[kani::proof]
#[kani::unwind(5)]
fn vk_c18_callstack_push_pop_symmetry() {
    let mut st = CallStack::new();
    st.push_command_string();
    let r = reg();
    let si = crate::SourceInfo::default();
    let k1: u8 = any_below(5);
    let two: bool = kani::any();
    let k2: u8 = any_below(4);
    let snap = |st: &CallStack| (st.depth(), st.function_call_depth(), st.script_source_depth(), st.in_function(), st.in_sourced_script(), st.is_trap_signal_active(TrapSignal::Exit));
    let push = |st: &mut CallStack, k: u8| match k {
        0 => st.push_function("", &r, Vec::new()),
        1 => st.push_script(ScriptCallType::Source, &si, Vec::new()),
        2 => st.push_script(ScriptCallType::Run, &si, Vec::new()),
        3 => st.push_eval(),
        _ => st.push_trap_handler(TrapSignal::Exit, None),
    };
    let s0 = snap(&st);
    push(&mut st, k1);
    let s1 = snap(&st);
    assert!(s1.0 == s0.0 + 1, "C18.callstack.push_adds_one_frame");
    assert!(s1.1 == s0.1 + (k1 == 0) as usize && s1.3 == (k1 == 0), "C18.callstack.function_depth_counts_function_frames");
    assert!(s1.2 == s0.2 + (k1 == 1) as usize && s1.4 == (k1 == 1), "C18.callstack.source_depth_counts_sourced_scripts");
    assert!(s1.5 == (k1 == 4), "C16.callstack.trap_mark_follows_frame");
    if two {
        push(&mut st, k2);
        let s2 = snap(&st);
        assert!(s2.0 == s1.0 + 1 && s2.1 == s1.1 + (k2 == 0) as usize && s2.2 == s1.2 + (k2 == 1) as usize, "C18.callstack.nested_push_counts");
        // in_sourced_script looks at the innermost *script* frame only
        assert!(s2.4 == (if k2 == 1 { true } else if k2 == 2 { false } else { s1.4 }), "C18.callstack.in_sourced_script_innermost_script_frame");
        let f = st.pop(); assert!(f.is_some(), "C18.callstack.pop_returns_frame"); std::mem::forget(f);
        let s3 = snap(&st);
        assert!(s3 == s1, "C18.callstack.inner_pop_restores_outer_view");
    }
    let f = st.pop(); assert!(f.is_some(), "C18.callstack.pop_returns_frame"); std::mem::forget(f);
    let s4 = snap(&st);
    assert!(s4 == s0, "C18.callstack.pop_restores_everything");
    kani::cover!(two && k1 == 0 && k2 == 1, "function_then_source");
    kani::cover!(!two && k1 == 4, "single_trap_frame");
    std::mem::forget(st); std::mem::forget(r); std::mem::forget(si);
}

//@proof {'props': ['C18'], 'tier': 'quick', 'timeout': 300, 'uses': ['callstack_file'], 'bounds': 'empty stack', 'desc': 'pop on an empty stack is a no-op returning None; counters never underflow'}
#[kani::proof]
#[kani::unwind(5)]
fn vk_c18_callstack_pop_empty() {
    let mut st = CallStack::new();
    let f = st.pop();
    kani::cover!(f.is_none(), "empty_pop");
    assert!(f.is_none() && st.depth() == 0 && st.function_call_depth() == 0 && st.script_source_depth() == 0, "C18.callstack.pop_empty_noop");
    std::mem::forget(st);
}
