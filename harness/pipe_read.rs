/*@meta
{
 'package': 'brush-core',
 'host': 'brush-core/src/sys/unix/async_pipe.rs',
 'stubs': ['de-async transplant of AsyncPipeReader::read_to_string (the drain of a command substitution) over a duck-typed pipe: the kernel delivers the data in up to 3 reads of 0..2 symbolic bytes each; the stand-in offers the reading calls a drain could use - read_to_string / read_to_end (tokio contract: everything up to end of file, read_to_string fails on invalid UTF-8) and read (one delivery per call)'],
 'assumptions': ['<= 4 bytes in total, split anywhere into <= 3 deliveries (covers every split of a 2-, 3- and 4-byte character)', 'reads do not fail'],
 'out_of_claim': ['the pipe itself (kernel), tokio\'s implementation of the reading calls', 'output that is not valid UTF-8 (brush cannot represent it; bash passes the bytes through)', 'trailing-newline removal (caller)'],
}
@*/
/*@recipes
{
 'read_all': {'file': 'brush-core/src/sys/unix/async_pipe.rs', 'start': r'pub\(crate\) async fn read_to_string\(&mut self\) -> io::Result<String>', 'mode': 'fn_body', 'self_to': 'this', 'deasync': True},
}
@*/
use super::*;

/// the data, as the kernel hands it over: delivery k carries lens[k] bytes
pub struct Src { pub data: [u8; 4], pub lens: [usize; 3], pub k: usize, pub pos: usize, pub total: usize }
impl Src {
    /// tokio contract: appends everything up to end of file if it is valid UTF-8, InvalidData otherwise
    pub fn read_to_string(&mut self, s: &mut String) -> io::Result<usize> {
        let rest = &self.data[self.pos..self.total];
        let n = rest.len();
        match std::str::from_utf8(rest) {
            Ok(t) => { s.push_str(t); self.pos = self.total; self.k = 3; Ok(n) }
            Err(_) => Err(io::Error::from(io::ErrorKind::InvalidData)),
        }
    }
    pub fn read_to_end(&mut self, v: &mut Vec<u8>) -> io::Result<usize> {
        let n = self.total - self.pos;
        v.extend_from_slice(&self.data[self.pos..self.total]); self.pos = self.total; self.k = 3; Ok(n)
    }
    /// one delivery per call; 0 at end of file
    pub fn read(&mut self, buf: &mut [u8]) -> io::Result<usize> {
        if self.k >= 3 { return Ok(0); }
        let mut n = self.lens[self.k]; self.k += 1;
        if n > buf.len() { n = buf.len(); }
        let mut i = 0;
        while i < 2 { if i < n { buf[i] = self.data[self.pos + i]; } i += 1; }
        self.pos += n;
        // a delivery of 0 bytes before the end would read as end of file: deliveries are non-empty until the data is exhausted (harness)
        Ok(n)
    }
}
pub struct DReader(pub Src);

fn t_read_all(this: &mut DReader) -> io::Result<String> {
/*@LIFT read_all*/
}

//@proof {'props': ['C11'], 'tier': 'quick', 'timeout': 900, 'uses': ['read_all'], 'bounds': '0..4 symbolic bytes forming valid UTF-8, delivered in up to 3 reads of 1..2 bytes (every way of splitting a multi-byte character across reads)', 'desc': 'draining a command substitution: the string handed back is byte for byte what was written, whatever the read boundaries were (a character split across two reads is not damaged)'}
#[kani::proof]
#[kani::unwind(6)]
fn vk_c11_drain_is_independent_of_read_boundaries() {
    let data: [u8; 4] = kani::any();
    let lens: [usize; 3] = kani::any();
    kani::assume(lens[0] <= 2 && lens[1] <= 2 && lens[2] <= 2);
    // non-empty deliveries first (an empty read means end of file)
    kani::assume((lens[0] > 0 || lens[1] == 0) && (lens[1] > 0 || lens[2] == 0));
    let total = lens[0] + lens[1] + lens[2];
    kani::assume(total <= 4);
    let valid = std::str::from_utf8(&data[..total]).is_ok();
    kani::assume(valid);
    let mut r = DReader(Src { data, lens, k: 0, pos: 0, total });
    let out = t_read_all(&mut r);
    kani::cover!(total == 2 && lens[0] == 1 && data[0] >= 0xC2, "two_byte_character_split_across_two_reads");
    kani::cover!(total == 4 && data[0] >= 0xF0, "four_byte_character");
    kani::cover!(total == 0, "empty_output");
    match &out {
        Ok(s) => {
            let b = s.as_bytes();
            assert!(b.len() == total, "C11.drain.every_byte_arrives_none_added");
            let mut i = 0;
            while i < 4 { if i < total && i < b.len() { assert!(b[i] == data[i], "C11.drain.bytes_in_order_unchanged"); } i += 1; }
        }
        Err(_) => { assert!(false, "C11.drain.valid_output_is_not_an_error"); }
    }
    std::mem::forget(out);
}
