/*@meta
{
 'package': 'brush-core',
 'host': 'brush-core/src/arithmetic.rs',
 'stubs': ['tracing -> no-op stub crate',
           'every nested evaluator call inside the lifted bodies (eval_expr_impl / deref_lvalue / assign / apply_*_op, and the public `.eval(shell)` entry if a body uses it) -> oracle recording the recursion depth it was handed',
           'get_var_value / array element lookup -> oracle returning a concrete empty string', 'brush_parser::arithmetic::parse(contents) -> oracle: literal, non-literal expression, or parse error (symbolic)',
           'i64 -> String conversion of an evaluated subscript -> oracle (formatting is not the subject)'],
 'assumptions': ['one evaluator step at an arbitrary depth 0..=MAX_VARIABLE_DEREF_DEPTH; termination of the whole evaluation follows by induction: depth never decreases, and every re-evaluation of variable *contents* increases it'],
 'out_of_claim': ['the arithmetic grammar itself', 'stack use per level (the bound is the constant MAX_VARIABLE_DEREF_DEPTH, read from the source)'],
}
@*/
/*@recipes
{
 'deref_d': {'file': 'brush-core/src/arithmetic.rs', 'start': r'^fn deref_lvalue\(', 'mode': 'fn_body',
        'rewrites': [[r'eval_expr_impl\(index_expr, shell, ([^)]+)\)\?\.to_string\(\)', r'__o.eval_index(\1)?', 0],
                     [r'index_expr\.eval\(shell\)\?\.to_string\(\)', r'__o.eval_index_restart()?', 0],
                     [r'get_var_value\(shell, name\.as_str\(\)\)', r'__o.var_value()', 1],
                     [r'(?s)shell\s*\.env\(\)\s*\.get\(name\).*?\.unwrap_or\(Cow::Borrowed\(""\)\)', r'__o.array_value(index_str.as_str())', 1],
                     [r'brush_parser::arithmetic::parse\(value_str\.as_ref\(\)\)', r'__o.parse()', 1],
                     [r'eval_expr_impl\(&parsed_value, shell, ([^)]+)\)', r'__o.eval_parsed(&parsed_value, \1)', 2],
                     [r'(\w+)\.eval\(shell\)', r'__o.eval_restart()', 0]]},
 'assign_d': {'file': 'brush-core/src/arithmetic.rs', 'start': r'^fn assign\(', 'mode': 'fn_body',
        'rewrites': [[r'eval_expr_impl\(index_expr, shell, ([^)]+)\)\?\.to_string\(\)', r'__o.eval_index(\1)?', 0],
                     [r'index_expr\.eval\(shell\)\?\.to_string\(\)', r'__o.eval_index_restart()?', 0],
                     [r'(?s)shell\s*\.env_mut\(\)\s*\.update_or_add\(.*?\)\s*\.map_err\(\|_err\| EvalError::FailedToUpdateEnvironment\)', r'__o.store()', 1],
                     [r'(?s)shell\s*\.env_mut\(\)\s*\.update_or_add_array_element\(.*?\)\s*\.map_err\(\|_err\| EvalError::FailedToUpdateEnvironment\)', r'__o.store_element(index_str)', 1]]},
 'dispatch_d': {'file': 'brush-core/src/arithmetic.rs', 'start': r'^fn eval_expr_impl\(', 'mode': 'fn_body',
        'rewrites': [[r'eval_expr_impl\((\w+), shell, ([^)]+)\)', r'__o.ev(\1, \2)', 4],
                     [r'pin_subscript\(shell, &?(\w+), ([^)]+)\)', r'__o.pin(&\1, \2)', 0],
                     [r'deref_lvalue\(shell, &?(\w+), ([^)]+)\)', r'__o.deref(&\1, \2)', 1],
                     [r'assign\(shell, &?(\w+), (\w+), ([^)]+)\)', r'__o.assign(&\1, \2, \3)', 1],
                     [r'apply_unary_op\(shell, \*op, (\w+), ([^)]+)\)', r'__o.unop(*op, \1, \2)', 1],
                     [r'apply_unary_assignment_op\(shell, &?(\w+), \*op, ([^)]+)\)', r'__o.incdec(&\1, *op, \2)', 1],
                     [r'apply_binary_op\(\s*shell,\s*\*op,\s*([^,]+),\s*([^,]+),\s*([^,)]+),?\s*\)', r'__o.binop(*op, \1, \2, \3)', 1],
                     [r'(\w+)\.eval\(shell\)', r'__o.eval_restart()', 0]]},
 'pin_d': {'file': 'brush-core/src/arithmetic.rs', 'start': r'^fn pin_subscript\(', 'mode': 'fn_body', 'if_absent': 'Ok(lvalue.clone())',
        'rewrites': [[r'eval_expr_impl\(index_expr, shell, ([^)]+)\)', r'__o.eval_index_value(\1)', 1],
                     [r'Box::new\(ast::ArithmeticExpr::Literal\((\w+)\)\)', r'ast::Kid::pinned(\1)', 1],
                     [r'(\w+)\.eval\(shell\)', r'__o.eval_restart()', 0]]},
 'binop_d': {'file': 'brush-core/src/arithmetic.rs', 'start': r'^fn apply_binary_op\(', 'mode': 'fn_body',
        'rewrites': [[r'eval_expr_impl\((\w+), shell, ([^)]+)\)', r'__o.sub(\2)', 6], [r'(\w+)\.eval\(shell\)', r'__o.eval_restart()', 0]]},
 'unop_d': {'file': 'brush-core/src/arithmetic.rs', 'start': r'^fn apply_unary_op\(', 'mode': 'fn_body',
        'rewrites': [[r'eval_expr_impl\((\w+), shell, ([^)]+)\)', r'__o.sub(\2)', 1], [r'(\w+)\.eval\(shell\)', r'__o.eval_restart()', 0]]},
 'incdec_d': {'file': 'brush-core/src/arithmetic.rs', 'start': r'^fn apply_unary_assignment_op\(', 'mode': 'fn_body',
        'rewrites': [[r'deref_lvalue\(shell, (\w+), ([^)]+)\)', r'__o.sub(\2)', 1],
                     [r'assign\(shell, (\w+), (\w+), ([^)]+)\)', r'__o.sub(\3)', 4], [r'(\w+)\.eval\(shell\)', r'__o.eval_restart()', 0]]},
}
@*/
use super::*;
use crate::vk_prelude::*;

/// Light stand-in for brush_parser::ast inside this module: sub-expressions are tokens, so no value of a recursive type is ever
/// built, cloned or dropped (the drop glue of the real boxed expression tree is what made the compound-assignment arm time out).
/// Operator enums are the real ones.
pub mod ast {
    pub use brush_parser::ast::{BinaryOperator, UnaryAssignmentOperator, UnaryOperator};
    #[derive(Clone, Copy, PartialEq, Eq)]
    pub struct Kid(pub u8);
    /// a subscript that has already been evaluated (a literal): evaluating it again has no side effect
    impl Kid { pub const PINNED: u8 = 200; pub fn pinned(_v: i64) -> Kid { Kid(Self::PINNED) } }
    impl ArithmeticTarget { pub fn unpinned_subscripts(&self) -> u8 { match self { ArithmeticTarget::ArrayElement(_, k) if k.0 != Kid::PINNED => 1, _ => 0 } } }
    #[derive(Clone, PartialEq, Eq)]
    pub enum ArithmeticTarget { Variable(Name), ArrayElement(Name, Kid) }
    #[derive(Clone, Copy, PartialEq, Eq)]
    pub struct Name;
    impl Name { pub fn as_str(&self) -> &str { "" } }
    pub enum ArithmeticExpr {
        Literal(i64), Reference(ArithmeticTarget), UnaryOp(UnaryOperator, Kid), BinaryOp(BinaryOperator, Kid, Kid), Conditional(Kid, Kid, Kid),
        Assignment(ArithmeticTarget, Kid), UnaryAssignment(UnaryAssignmentOperator, ArithmeticTarget), BinaryAssignment(BinaryOperator, ArithmeticTarget, Kid),
    }
}
/// what an operand handed to a nested evaluator looks like: a sub-expression token, or a freshly built reference to the assignment target
pub trait Operand { fn tag(&self) -> u8; fn subs(&self) -> u8 { 0 } }
impl Operand for &ast::Kid { fn tag(&self) -> u8 { self.0 } }
impl Operand for &ast::ArithmeticExpr { fn tag(&self) -> u8 { match self { ast::ArithmeticExpr::Reference(_) => 100, ast::ArithmeticExpr::Literal(_) => 101, _ => 102 } }
    fn subs(&self) -> u8 { match self { ast::ArithmeticExpr::Reference(t) => t.unpinned_subscripts(), _ => 0 } } }

pub struct DOracle {
    pub depth: u32,              // the depth the step under test was entered with
    pub min_seen: u32, pub max_seen: u32, pub calls: u8, pub restarts: u8,
    pub index_evals: u8, pub index_depth: u32,
    pub parsed_evals: u8, pub parsed_depth: u32,
    pub parse_kind: u8,          // 0 literal, 1 non-literal, 2 parse error
    pub val: i64, pub stores: u8,
    pub octal_looking: bool,
    pub subs: u8,                // how many times the dispatch step (through its callees' contracts) evaluates the target's subscript expression
    pub pins: u8, pub pin_depth: u32,
    // event log of the dispatch step: (kind, operand tag, second tag); kinds 1 ev, 2 deref, 3 assign, 4 unop, 5 incdec, 6 binop
    pub ev: [(u8, u8, u8); 4], pub n: usize, pub vals: [i64; 4], pub assigned: Option<i64>, pub opseen: Option<u8>,
}
impl DOracle {
    pub fn new(depth: u32) -> Self {
        let pk: u8 = kani::any(); kani::assume(pk < 3);
        DOracle { depth, min_seen: u32::MAX, max_seen: 0, calls: 0, restarts: 0, index_evals: 0, index_depth: 0, parsed_evals: 0, parsed_depth: 0, parse_kind: pk, val: kani::any(), stores: 0, octal_looking: kani::any(), subs: 0, pins: 0, pin_depth: 0,
                  ev: [(0, 0, 0); 4], n: 0, vals: [kani::any(), kani::any(), kani::any(), kani::any()], assigned: None, opseen: None }
    }
    fn note(&mut self, d: u32) { self.calls += 1; if d < self.min_seen { self.min_seen = d; } if d > self.max_seen { self.max_seen = d; } }
    fn log(&mut self, k: u8, a: u8, b: u8, d: u32) -> i64 { self.note(d); let i = self.n; kani::assume(i < 4); self.ev[i] = (k, a, b); self.n += 1; self.vals[i] }
    fn sub(&mut self, d: u32) -> Result<i64, EvalError> { self.note(d); Ok(self.val) }
    fn ev(&mut self, e: &ast::Kid, d: u32) -> Result<i64, EvalError> { Ok(self.log(1, e.0, 0, d)) }
    // contracts of the callees with respect to the subscript (vk_c01_deref_depth_guard, vk_c07_assign_depth, vk_c01_depth_passed_unchanged):
    // deref_lvalue and assign each evaluate the subscript expression of an element target once; the increment routine does both
    fn deref(&mut self, l: &ast::ArithmeticTarget, d: u32) -> Result<i64, EvalError> { self.subs += l.unpinned_subscripts(); Ok(self.log(2, 0, 0, d)) }
    fn assign(&mut self, l: &ast::ArithmeticTarget, v: i64, d: u32) -> Result<i64, EvalError> { self.subs += l.unpinned_subscripts(); self.log(3, 0, 0, d); self.assigned = Some(v); Ok(v) }
    /// pin_subscript (vk_c07_pin_subscript): evaluates the subscript once and returns the target with a literal subscript
    fn pin(&mut self, l: &ast::ArithmeticTarget, d: u32) -> Result<ast::ArithmeticTarget, EvalError> {
        self.note(d); self.pins += 1; self.subs += l.unpinned_subscripts();
        Ok(match l { ast::ArithmeticTarget::ArrayElement(n, _) => ast::ArithmeticTarget::ArrayElement(*n, ast::Kid(ast::Kid::PINNED)), ast::ArithmeticTarget::Variable(n) => ast::ArithmeticTarget::Variable(*n) })
    }
    fn eval_index_value(&mut self, d: u32) -> Result<i64, EvalError> { self.index_evals += 1; self.index_depth = d; self.note(d); Ok(self.val) }
    fn unop(&mut self, _op: ast::UnaryOperator, e: &ast::Kid, d: u32) -> Result<i64, EvalError> { Ok(self.log(4, e.0, 0, d)) }
    fn incdec(&mut self, l: &ast::ArithmeticTarget, _op: ast::UnaryAssignmentOperator, d: u32) -> Result<i64, EvalError> { self.subs += 2 * l.unpinned_subscripts(); Ok(self.log(5, 0, 0, d)) }
    fn binop<L: Operand, R: Operand>(&mut self, op: ast::BinaryOperator, l: L, r: R, d: u32) -> Result<i64, EvalError> { self.opseen = Some(op as u8); self.subs += l.subs() + r.subs(); Ok(self.log(6, l.tag(), r.tag(), d)) }
    fn eval_restart(&mut self) -> Result<i64, EvalError> { self.restarts += 1; self.note(0); Ok(self.val) }
    fn eval_index(&mut self, d: u32) -> Result<String, EvalError> { self.index_evals += 1; self.index_depth = d; self.note(d); Ok(String::new()) }
    fn eval_index_restart(&mut self) -> Result<String, EvalError> { self.index_evals += 1; self.restarts += 1; self.index_depth = 0; self.note(0); Ok(String::new()) }
    // contents that look like a plain decimal number to str::parse but are octal to the shell: every value must go through the arithmetic parser
    fn var_value(&mut self) -> Result<Cow<'static, str>, EvalError> { Ok(Cow::Borrowed(if self.octal_looking { "010" } else { "" })) }
    fn array_value(&mut self, _i: &str) -> Cow<'static, str> { Cow::Borrowed(if self.octal_looking { "010" } else { "" }) }
    fn parse(&mut self) -> Result<ast::ArithmeticExpr, ()> {
        match self.parse_kind { 0 => Ok(ast::ArithmeticExpr::Literal(7)), 1 => Ok(ast::ArithmeticExpr::Reference(ast::ArithmeticTarget::Variable(ast::Name))), _ => Err(()) }
    }
    fn eval_parsed(&mut self, _e: &ast::ArithmeticExpr, d: u32) -> Result<i64, EvalError> { self.parsed_evals += 1; self.parsed_depth = d; self.note(d); Ok(self.val) }
    fn store(&mut self) -> Result<(), EvalError> { self.stores += 1; Ok(()) }
    fn store_element(&mut self, i: String) -> Result<(), EvalError> { std::mem::forget(i); self.stores += 1; Ok(()) }
}

fn t_deref(lvalue: &ast::ArithmeticTarget, depth: u32, __o: &mut DOracle) -> Result<i64, EvalError> {
/*@LIFT deref_d*/
}
fn t_assign(lvalue: &ast::ArithmeticTarget, value: i64, depth: u32, __o: &mut DOracle) -> Result<i64, EvalError> {
/*@LIFT assign_d*/
}
fn t_pin(lvalue: &ast::ArithmeticTarget, depth: u32, __o: &mut DOracle) -> Result<ast::ArithmeticTarget, EvalError> {
/*@LIFT pin_d*/
}
fn t_dispatch(expr: &ast::ArithmeticExpr, depth: u32, __o: &mut DOracle) -> Result<i64, EvalError> {
/*@LIFT dispatch_d*/
}
fn t_binop(op: ast::BinaryOperator, left: &ast::Kid, right: &ast::Kid, depth: u32, __o: &mut DOracle) -> Result<i64, EvalError> {
/*@LIFT binop_d*/
}
fn t_unop(op: ast::UnaryOperator, operand: &ast::Kid, depth: u32, __o: &mut DOracle) -> Result<i64, EvalError> {
/*@LIFT unop_d*/
}
fn t_incdec(lvalue: &ast::ArithmeticTarget, op: ast::UnaryAssignmentOperator, depth: u32, __o: &mut DOracle) -> Result<i64, EvalError> {
/*@LIFT incdec_d*/
}

fn var() -> ast::ArithmeticTarget { ast::ArithmeticTarget::Variable(ast::Name) }
fn elem() -> ast::ArithmeticTarget { ast::ArithmeticTarget::ArrayElement(ast::Name, ast::Kid(9)) }
fn any_depth() -> u32 { let d: u32 = kani::any(); kani::assume(d <= MAX_VARIABLE_DEREF_DEPTH); d }

//@proof {'props': ['C01', 'C07'], 'tier': 'quick', 'timeout': 600, 'uses': ['deref_d'], 'bounds': 'depth 0..=MAX symbolic; target a variable or an array element (symbolic); contents parse to a literal / a non-literal / a parse error (symbolic)', 'desc': 'recursion guard of variable dereference: the subscript is evaluated at the caller\'s depth (never restarted at 0); contents that need further evaluation are evaluated at depth+1 and refused with "recursion level exceeded" beyond the limit; nothing is ever evaluated above the limit - hence evaluation of self-referential variables terminates with an error instead of overflowing the stack'}
#[kani::proof]
#[kani::unwind(8)]
fn vk_c01_deref_depth_guard() {
    let depth = any_depth();
    let is_elem: bool = kani::any();
    let lv = if is_elem { elem() } else { var() };
    let mut o = DOracle::new(depth);
    let r = t_deref(&lv, depth, &mut o);
    kani::cover!(is_elem && o.parse_kind == 1 && depth == MAX_VARIABLE_DEREF_DEPTH, "element_contents_at_the_limit");
    kani::cover!(!is_elem && o.parse_kind == 1 && depth == 0 && r.is_ok(), "plain_variable_holding_an_expression");
    assert!(o.restarts == 0, "C01.depth.no_nested_evaluation_restarts_at_depth_0");
    assert!(o.index_evals == is_elem as u8, "C07.deref.subscript_evaluated_once");
    if is_elem { assert!(o.index_depth == depth, "C01.depth.subscript_evaluated_at_callers_depth"); }
    match o.parse_kind {
        0 => { assert!(o.parsed_evals == 1 && o.parsed_depth == depth && r.is_ok(), "C07.deref.literal_contents_at_same_depth"); }
        1 => {
            if depth + 1 > MAX_VARIABLE_DEREF_DEPTH { assert!(o.parsed_evals == 0 && matches!(r, Err(EvalError::RecursionLimitExceeded)), "C01.depth.limit_is_an_error_not_a_crash"); }
            else { assert!(o.parsed_evals == 1 && o.parsed_depth == depth + 1 && r.is_ok(), "C01.depth.contents_evaluated_one_level_deeper"); }
        }
        _ => { assert!(o.parsed_evals == 0 && matches!(r, Err(EvalError::ParseError(_))), "C07.deref.malformed_contents_are_an_error"); }
    }
    assert!(o.calls == 0 || (o.min_seen >= depth && o.max_seen <= MAX_VARIABLE_DEREF_DEPTH), "C01.depth.never_decreases_never_exceeds_limit");
    std::mem::forget(r); std::mem::forget(lv);
}

//@proof {'props': ['C01', 'C07'], 'tier': 'quick', 'timeout': 600, 'uses': ['assign_d'], 'bounds': 'depth 0..=MAX symbolic; target a variable or an array element', 'desc': 'assignment through the evaluator: an element subscript is evaluated once at the caller\'s depth; exactly one store; the assigned value is returned'}
#[kani::proof]
#[kani::unwind(3)]
fn vk_c07_assign_depth() {
    let depth = any_depth();
    let is_elem: bool = kani::any();
    let lv = if is_elem { elem() } else { var() };
    let mut o = DOracle::new(depth);
    // i64 -> String of the stored value is formatting: concrete here
    let r = t_assign(&lv, 5, depth, &mut o);
    kani::cover!(is_elem, "element_target");
    assert!(o.restarts == 0 && o.index_evals == is_elem as u8 && (!is_elem || o.index_depth == depth), "C01.depth.assign_subscript_at_callers_depth");
    assert!(o.stores == 1 && matches!(r, Ok(5)), "C07.assign.stores_once_and_returns_value");
    std::mem::forget(r); std::mem::forget(lv);
}

//@proof {'props': ['C01', 'C07'], 'tier': 'quick', 'timeout': 900, 'uses': ['binop_d', 'unop_d', 'incdec_d'], 'bounds': 'depth 0..=MAX symbolic; binary operator in {&&, ||, +, *} symbolic', 'desc': 'every nested evaluator call made by apply_binary_op, apply_unary_op and apply_unary_assignment_op carries exactly the depth it was entered with'}
#[kani::proof]
#[kani::unwind(3)]
fn vk_c01_depth_passed_unchanged() {
    let depth = any_depth();
    let mut o = DOracle::new(depth);
    let which: u8 = any_below(3);
    let bop = match any_below(4) { 0 => ast::BinaryOperator::LogicalAnd, 1 => ast::BinaryOperator::LogicalOr, 2 => ast::BinaryOperator::Add, _ => ast::BinaryOperator::Multiply };
    match which {
        0 => { let r = t_binop(bop, &ast::Kid(0), &ast::Kid(1), depth, &mut o); assert!(o.calls >= 1, "C07.binop.evaluates_operands"); std::mem::forget(r); }
        1 => { let r = t_unop(ast::UnaryOperator::LogicalNot, &ast::Kid(0), depth, &mut o); assert!(o.calls == 1, "C07.unop.evaluates_operand_once"); std::mem::forget(r); }
        _ => { let lv = var(); let r = t_incdec(&lv, ast::UnaryAssignmentOperator::PrefixDecrement, depth, &mut o); assert!(o.calls == 2, "C07.incdec.reads_then_stores"); std::mem::forget(r); }
    }
    kani::cover!(which == 0 && o.calls == 1, "short_circuit");
    kani::cover!(which == 2, "increment");
    assert!(o.restarts == 0, "C01.depth.no_nested_evaluation_restarts_at_depth_0");
    assert!(o.min_seen == depth && o.max_seen == depth, "C01.depth.passed_unchanged_to_every_nested_call");
}

// (unwind 70: a refactoring may pull a real operator routine into the lifted arm; its longest loop is the 64-step exponentiation)
//@proof {'props': ['C07', 'C01'], 'tier': 'quick', 'timeout': 900, 'uses': ['dispatch_d', 'pin_d'], 'bounds': 'one evaluator step on each of the 8 expression kinds (symbolic); compound-assignment operator among the 11 (symbolic); sub-evaluation results any i64; depth 0..=MAX symbolic', 'desc': 'dispatch contract of eval_expr_impl: a literal is itself; a reference is dereferenced; ?: evaluates the condition then exactly the selected branch; x = e evaluates e then stores that value; x op= e applies op to (a reference to x, the *unevaluated* e) - so x is read before any side effect of e - then stores the result once; ++/-- go to the increment routine; every nested call carries the caller\'s depth'}
#[kani::proof]
#[kani::unwind(70)]
fn vk_c07_dispatch_contract() {
    let depth = any_depth();
    let mut o = DOracle::new(depth);
    let k: u8 = any_below(8);
    let is_elem: bool = kani::any();
    let tgt = if is_elem { elem() } else { var() };
    let t: u8 = any_below(11);
    let op = match t { 0 => ast::BinaryOperator::Power, 1 => ast::BinaryOperator::Multiply, 2 => ast::BinaryOperator::Divide, 3 => ast::BinaryOperator::Modulo,
                       4 => ast::BinaryOperator::Add, 5 => ast::BinaryOperator::Subtract, 6 => ast::BinaryOperator::ShiftLeft, 7 => ast::BinaryOperator::ShiftRight,
                       8 => ast::BinaryOperator::BitwiseAnd, 9 => ast::BinaryOperator::BitwiseXor, _ => ast::BinaryOperator::BitwiseOr };
    let lit: i64 = kani::any();
    let e = match k {
        0 => ast::ArithmeticExpr::Literal(lit),
        1 => ast::ArithmeticExpr::Reference(tgt.clone()),
        2 => ast::ArithmeticExpr::UnaryOp(ast::UnaryOperator::UnaryMinus, ast::Kid(0)),
        3 => ast::ArithmeticExpr::BinaryOp(op, ast::Kid(0), ast::Kid(1)),
        4 => ast::ArithmeticExpr::Conditional(ast::Kid(0), ast::Kid(1), ast::Kid(2)),
        5 => ast::ArithmeticExpr::Assignment(tgt.clone(), ast::Kid(1)),
        6 => ast::ArithmeticExpr::UnaryAssignment(ast::UnaryAssignmentOperator::PostfixIncrement, tgt.clone()),
        _ => ast::ArithmeticExpr::BinaryAssignment(op, tgt.clone(), ast::Kid(1)),
    };
    let v = vk_ok(t_dispatch(&e, depth, &mut o));
    kani::cover!(k == 7 && t == 5, "minus_assign");
    kani::cover!(k == 4 && o.vals[0] == 0, "else_branch");
    kani::cover!(k == 5 && is_elem, "element_assignment");
    assert!(o.restarts == 0 && (o.calls == 0 || (o.min_seen == depth && o.max_seen == depth)), "C01.depth.passed_unchanged_to_every_nested_call");
    // side effects in a subscript (a[i++] += 1, a[i++]++) must happen once, and the element read is the element written
    if k == 1 || k >= 5 { assert!(o.subs == is_elem as u8, "C07.dispatch.target_subscript_evaluated_exactly_once"); }
    kani::cover!(k == 6 && is_elem, "increment_of_an_array_element");
    match k {
        0 => assert!(o.n == 0 && v == lit, "C07.dispatch.literal_is_itself"),
        1 => assert!(o.n == 1 && o.ev[0].0 == 2 && v == o.vals[0], "C07.dispatch.reference_is_dereferenced_once"),
        2 => assert!(o.n == 1 && o.ev[0] == (4, 0, 0) && v == o.vals[0], "C07.dispatch.unary_operator_routine"),
        3 => assert!(o.n == 1 && o.ev[0] == (6, 0, 1) && o.opseen == Some(op as u8) && v == o.vals[0], "C07.dispatch.binary_operator_routine_with_operands_in_order"),
        4 => {
            assert!(o.n == 2 && o.ev[0] == (1, 0, 0), "C07.cond.condition_once_first");
            if o.vals[0] != 0 { assert!(o.ev[1] == (1, 1, 0) && v == o.vals[1], "C07.cond.then_only"); } else { assert!(o.ev[1] == (1, 2, 0) && v == o.vals[1], "C07.cond.else_only"); }
            assert!(o.assigned.is_none(), "C07.cond.no_side_effect");
        }
        5 => assert!(o.n == 2 && o.ev[0] == (1, 1, 0) && o.ev[1].0 == 3 && o.assigned == Some(o.vals[0]) && v == o.vals[0], "C07.assign.rhs_then_store_that_value"),
        6 => assert!(o.n == 1 && o.ev[0].0 == 5 && v == o.vals[0] && o.assigned.is_none(), "C07.dispatch.increment_routine"),
        _ => {
            // (a reference to the target, the unevaluated operand): the target is read inside the operator routine before the operand is evaluated
            assert!(o.n == 2 && o.ev[0] == (6, 100, 1) && o.opseen == Some(op as u8), "C07.opassign.applies_op_to_lvalue_reference_then_unevaluated_operand");
            assert!(o.ev[1].0 == 3 && o.assigned == Some(o.vals[0]) && v == o.vals[0], "C07.opassign.stores_result_once_and_yields_it");
        }
    }
}

//@proof {'props': ['C07', 'C01'], 'tier': 'quick', 'timeout': 600, 'uses': ['pin_d'], 'bounds': 'depth 0..=MAX symbolic; target a variable or an array element', 'desc': 'pinning the target of a read-modify-write: an element subscript is evaluated exactly once, at the caller\'s depth, and replaced by its value; a plain variable is returned as is'}
#[kani::proof]
#[kani::unwind(3)]
fn vk_c07_pin_subscript() {
    let depth = any_depth();
    let is_elem: bool = kani::any();
    let lv = if is_elem { elem() } else { var() };
    let mut o = DOracle::new(depth);
    let r = t_pin(&lv, depth, &mut o);
    kani::cover!(is_elem, "element_target");
    assert!(o.restarts == 0 && o.index_evals <= 1 && (o.index_evals == 0 || o.index_depth == depth), "C01.depth.pin_subscript_at_callers_depth");
    match &r { Ok(t) => assert!(t.unpinned_subscripts() + o.index_evals == is_elem as u8, "C07.pin.subscript_evaluated_iff_the_result_is_pinned"), Err(_) => assert!(false, "C07.pin.cannot_fail_when_the_subscript_evaluates") }
    std::mem::forget(r); std::mem::forget(lv);
}
