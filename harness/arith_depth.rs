/*@meta
{
 'package': 'brush-core',
 'host': 'brush-core/src/arithmetic.rs',
 'stubs': ['tracing -> no-op stub crate',
           'every nested evaluator call inside the lifted bodies (eval_expr_impl / deref_lvalue / assign / apply_*_op, and the public `.eval(shell)` entry if a body uses it) -> oracle recording the recursion depth it was handed',
           'get_var_value / array element lookup -> oracle returning a concrete empty string', 'brush_parser::arithmetic::parse(contents) -> oracle: literal, non-literal expression, or parse error (symbolic)',
           'i64 -> String conversion of an evaluated subscript -> oracle (formatting is not the subject)'],
 'assumptions': ['one evaluator step at an arbitrary depth 0..=MAX_VARIABLE_DEREF_DEPTH; termination of the whole evaluation follows by induction: depth never decreases, and every re-evaluation of variable *contents* increases it'],
 'out_of_claim': ['the arithmetic grammar itself', 'stack use per level (the bound is the constant MAX_VARIABLE_DEREF_DEPTH, read from the source)'],
}
@*/
/*@recipes
{
 'deref_d': {'file': 'brush-core/src/arithmetic.rs', 'start': r'^fn deref_lvalue\(', 'mode': 'fn_body',
        'rewrites': [[r'eval_expr_impl\(index_expr, shell, ([^)]+)\)\?\.to_string\(\)', r'__o.eval_index(\1)?', 0],
                     [r'index_expr\.eval\(shell\)\?\.to_string\(\)', r'__o.eval_index_restart()?', 0],
                     [r'get_var_value\(shell, name\.as_str\(\)\)', r'__o.var_value()', 1],
                     [r'(?s)shell\s*\.env\(\)\s*\.get\(name\).*?\.unwrap_or\(Cow::Borrowed\(""\)\)', r'__o.array_value(index_str.as_str())', 1],
                     [r'brush_parser::arithmetic::parse\(value_str\.as_ref\(\)\)', r'__o.parse()', 1],
                     [r'eval_expr_impl\(&parsed_value, shell, ([^)]+)\)', r'__o.eval_parsed(&parsed_value, \1)', 2],
                     [r'(\w+)\.eval\(shell\)', r'__o.eval_restart()', 0]]},
 'assign_d': {'file': 'brush-core/src/arithmetic.rs', 'start': r'^fn assign\(', 'mode': 'fn_body',
        'rewrites': [[r'eval_expr_impl\(index_expr, shell, ([^)]+)\)\?\.to_string\(\)', r'__o.eval_index(\1)?', 0],
                     [r'index_expr\.eval\(shell\)\?\.to_string\(\)', r'__o.eval_index_restart()?', 0],
                     [r'(?s)shell\s*\.env_mut\(\)\s*\.update_or_add\(.*?\)\s*\.map_err\(\|_err\| EvalError::FailedToUpdateEnvironment\)', r'__o.store()', 1],
                     [r'(?s)shell\s*\.env_mut\(\)\s*\.update_or_add_array_element\(.*?\)\s*\.map_err\(\|_err\| EvalError::FailedToUpdateEnvironment\)', r'__o.store_element(index_str)', 1]]},
 'dispatch_d': {'file': 'brush-core/src/arithmetic.rs', 'start': r'^fn eval_expr_impl\(', 'mode': 'fn_body',
        'rewrites': [[r'eval_expr_impl\((\w+), shell, ([^)]+)\)', r'__o.sub(\2)', 4],
                     [r'deref_lvalue\(shell, (\w+), ([^)]+)\)', r'__o.sub(\2)', 1],
                     [r'assign\(shell, (\w+), (\w+), ([^)]+)\)', r'__o.sub(\3)', 2],
                     [r'apply_unary_op\(shell, \*op, (\w+), ([^)]+)\)', r'__o.sub(\2)', 1],
                     [r'apply_unary_assignment_op\(shell, (\w+), \*op, ([^)]+)\)', r'__o.sub(\2)', 1],
                     [r'apply_binary_op\(\s*shell,\s*\*op,\s*([^,]+),\s*([^,]+),\s*([^,)]+),?\s*\)', r'__o.sub(\3)', 2],
                     [r'(\w+)\.eval\(shell\)', r'__o.eval_restart()', 0]]},
 'binop_d': {'file': 'brush-core/src/arithmetic.rs', 'start': r'^fn apply_binary_op\(', 'mode': 'fn_body',
        'rewrites': [[r'eval_expr_impl\((\w+), shell, ([^)]+)\)', r'__o.sub(\2)', 6], [r'(\w+)\.eval\(shell\)', r'__o.eval_restart()', 0]]},
 'unop_d': {'file': 'brush-core/src/arithmetic.rs', 'start': r'^fn apply_unary_op\(', 'mode': 'fn_body',
        'rewrites': [[r'eval_expr_impl\((\w+), shell, ([^)]+)\)', r'__o.sub(\2)', 1], [r'(\w+)\.eval\(shell\)', r'__o.eval_restart()', 0]]},
 'incdec_d': {'file': 'brush-core/src/arithmetic.rs', 'start': r'^fn apply_unary_assignment_op\(', 'mode': 'fn_body',
        'rewrites': [[r'deref_lvalue\(shell, (\w+), ([^)]+)\)', r'__o.sub(\2)', 1],
                     [r'assign\(shell, (\w+), (\w+), ([^)]+)\)', r'__o.sub(\3)', 4], [r'(\w+)\.eval\(shell\)', r'__o.eval_restart()', 0]]},
}
@*/
use super::*;
use crate::vk_prelude::*;

pub struct DOracle {
    pub depth: u32,              // the depth the step under test was entered with
    pub min_seen: u32, pub max_seen: u32, pub calls: u8, pub restarts: u8,
    pub index_evals: u8, pub index_depth: u32,
    pub parsed_evals: u8, pub parsed_depth: u32,
    pub parse_kind: u8,          // 0 literal, 1 non-literal, 2 parse error
    pub val: i64, pub stores: u8,
}
impl DOracle {
    pub fn new(depth: u32) -> Self {
        let pk: u8 = kani::any(); kani::assume(pk < 3);
        DOracle { depth, min_seen: u32::MAX, max_seen: 0, calls: 0, restarts: 0, index_evals: 0, index_depth: 0, parsed_evals: 0, parsed_depth: 0, parse_kind: pk, val: kani::any(), stores: 0 }
    }
    fn note(&mut self, d: u32) { self.calls += 1; if d < self.min_seen { self.min_seen = d; } if d > self.max_seen { self.max_seen = d; } }
    fn sub(&mut self, d: u32) -> Result<i64, EvalError> { self.note(d); Ok(self.val) }
    fn eval_restart(&mut self) -> Result<i64, EvalError> { self.restarts += 1; self.note(0); Ok(self.val) }
    fn eval_index(&mut self, d: u32) -> Result<String, EvalError> { self.index_evals += 1; self.index_depth = d; self.note(d); Ok(String::new()) }
    fn eval_index_restart(&mut self) -> Result<String, EvalError> { self.index_evals += 1; self.restarts += 1; self.index_depth = 0; self.note(0); Ok(String::new()) }
    fn var_value(&mut self) -> Result<Cow<'static, str>, EvalError> { Ok(Cow::Borrowed("")) }
    fn array_value(&mut self, _i: &str) -> Cow<'static, str> { Cow::Borrowed("") }
    fn parse(&mut self) -> Result<ast::ArithmeticExpr, ()> {
        match self.parse_kind { 0 => Ok(ast::ArithmeticExpr::Literal(7)), 1 => Ok(ast::ArithmeticExpr::Reference(ast::ArithmeticTarget::Variable(String::new()))), _ => Err(()) }
    }
    fn eval_parsed(&mut self, _e: &ast::ArithmeticExpr, d: u32) -> Result<i64, EvalError> { self.parsed_evals += 1; self.parsed_depth = d; self.note(d); Ok(self.val) }
    fn store(&mut self) -> Result<(), EvalError> { self.stores += 1; Ok(()) }
    fn store_element(&mut self, i: String) -> Result<(), EvalError> { std::mem::forget(i); self.stores += 1; Ok(()) }
}

fn t_deref(lvalue: &ast::ArithmeticTarget, depth: u32, __o: &mut DOracle) -> Result<i64, EvalError> {
/*@LIFT deref_d*/
}
fn t_assign(lvalue: &ast::ArithmeticTarget, value: i64, depth: u32, __o: &mut DOracle) -> Result<i64, EvalError> {
/*@LIFT assign_d*/
}
fn t_dispatch(expr: &ast::ArithmeticExpr, depth: u32, __o: &mut DOracle) -> Result<i64, EvalError> {
/*@LIFT dispatch_d*/
}
fn t_binop(op: ast::BinaryOperator, left: &ast::ArithmeticExpr, right: &ast::ArithmeticExpr, depth: u32, __o: &mut DOracle) -> Result<i64, EvalError> {
/*@LIFT binop_d*/
}
fn t_unop(op: ast::UnaryOperator, operand: &ast::ArithmeticExpr, depth: u32, __o: &mut DOracle) -> Result<i64, EvalError> {
/*@LIFT unop_d*/
}
fn t_incdec(lvalue: &ast::ArithmeticTarget, op: ast::UnaryAssignmentOperator, depth: u32, __o: &mut DOracle) -> Result<i64, EvalError> {
/*@LIFT incdec_d*/
}

fn lit(n: i64) -> Box<ast::ArithmeticExpr> { Box::new(ast::ArithmeticExpr::Literal(n)) }
fn var() -> ast::ArithmeticTarget { ast::ArithmeticTarget::Variable(String::new()) }
fn elem() -> ast::ArithmeticTarget { ast::ArithmeticTarget::ArrayElement(String::new(), lit(0)) }
fn any_depth() -> u32 { let d: u32 = kani::any(); kani::assume(d <= MAX_VARIABLE_DEREF_DEPTH); d }

//@proof {'props': ['C01', 'C07'], 'tier': 'quick', 'timeout': 600, 'uses': ['deref_d'], 'bounds': 'depth 0..=MAX symbolic; target a variable or an array element (symbolic); contents parse to a literal / a non-literal / a parse error (symbolic)', 'desc': 'recursion guard of variable dereference: the subscript is evaluated at the caller\'s depth (never restarted at 0); contents that need further evaluation are evaluated at depth+1 and refused with "recursion level exceeded" beyond the limit; nothing is ever evaluated above the limit - hence evaluation of self-referential variables terminates with an error instead of overflowing the stack'}
#[kani::proof]
#[kani::unwind(3)]
fn vk_c01_deref_depth_guard() {
    let depth = any_depth();
    let is_elem: bool = kani::any();
    let lv = if is_elem { elem() } else { var() };
    let mut o = DOracle::new(depth);
    let r = t_deref(&lv, depth, &mut o);
    kani::cover!(is_elem && o.parse_kind == 1 && depth == MAX_VARIABLE_DEREF_DEPTH, "element_contents_at_the_limit");
    kani::cover!(!is_elem && o.parse_kind == 1 && depth == 0 && r.is_ok(), "plain_variable_holding_an_expression");
    assert!(o.restarts == 0, "C01.depth.no_nested_evaluation_restarts_at_depth_0");
    assert!(o.index_evals == is_elem as u8, "C07.deref.subscript_evaluated_once");
    if is_elem { assert!(o.index_depth == depth, "C01.depth.subscript_evaluated_at_callers_depth"); }
    match o.parse_kind {
        0 => { assert!(o.parsed_evals == 1 && o.parsed_depth == depth && r.is_ok(), "C07.deref.literal_contents_at_same_depth"); }
        1 => {
            if depth + 1 > MAX_VARIABLE_DEREF_DEPTH { assert!(o.parsed_evals == 0 && matches!(r, Err(EvalError::RecursionLimitExceeded)), "C01.depth.limit_is_an_error_not_a_crash"); }
            else { assert!(o.parsed_evals == 1 && o.parsed_depth == depth + 1 && r.is_ok(), "C01.depth.contents_evaluated_one_level_deeper"); }
        }
        _ => { assert!(o.parsed_evals == 0 && matches!(r, Err(EvalError::ParseError(_))), "C07.deref.malformed_contents_are_an_error"); }
    }
    assert!(o.calls == 0 || (o.min_seen >= depth && o.max_seen <= MAX_VARIABLE_DEREF_DEPTH), "C01.depth.never_decreases_never_exceeds_limit");
    std::mem::forget(r); std::mem::forget(lv);
}

//@proof {'props': ['C01', 'C07'], 'tier': 'quick', 'timeout': 600, 'uses': ['assign_d'], 'bounds': 'depth 0..=MAX symbolic; target a variable or an array element', 'desc': 'assignment through the evaluator: an element subscript is evaluated once at the caller\'s depth; exactly one store; the assigned value is returned'}
#[kani::proof]
#[kani::unwind(3)]
fn vk_c07_assign_depth() {
    let depth = any_depth();
    let is_elem: bool = kani::any();
    let lv = if is_elem { elem() } else { var() };
    let mut o = DOracle::new(depth);
    // i64 -> String of the stored value is formatting: concrete here
    let r = t_assign(&lv, 5, depth, &mut o);
    kani::cover!(is_elem, "element_target");
    assert!(o.restarts == 0 && o.index_evals == is_elem as u8 && (!is_elem || o.index_depth == depth), "C01.depth.assign_subscript_at_callers_depth");
    assert!(o.stores == 1 && matches!(r, Ok(5)), "C07.assign.stores_once_and_returns_value");
    std::mem::forget(r); std::mem::forget(lv);
}

//@proof {'props': ['C01', 'C07'], 'tier': 'quick', 'timeout': 900, 'uses': ['dispatch_d', 'binop_d', 'unop_d', 'incdec_d'], 'bounds': 'depth 0..=MAX symbolic; one evaluator step on each of the 8 expression kinds (symbolic), binary operator in {&&, ||, +, **} symbolic', 'desc': 'every nested evaluator call made by eval_expr_impl, apply_binary_op, apply_unary_op and apply_unary_assignment_op carries exactly the depth it was entered with - no arm restarts the count or skips a level'}
#[kani::proof]
#[kani::unwind(3)]
fn vk_c01_depth_passed_unchanged() {
    let depth = any_depth();
    let mut o = DOracle::new(depth);
    let which: u8 = any_below(4);
    let k: u8 = any_below(8);
    let bop = match any_below(4) { 0 => ast::BinaryOperator::LogicalAnd, 1 => ast::BinaryOperator::LogicalOr, 2 => ast::BinaryOperator::Add, _ => ast::BinaryOperator::Power };
    match which {
        0 => {
            let e = match k {
                0 => ast::ArithmeticExpr::Literal(1),
                1 => ast::ArithmeticExpr::Reference(var()),
                2 => ast::ArithmeticExpr::UnaryOp(ast::UnaryOperator::UnaryMinus, lit(0)),
                3 => ast::ArithmeticExpr::BinaryOp(bop, lit(0), lit(1)),
                4 => ast::ArithmeticExpr::Conditional(lit(0), lit(1), lit(2)),
                5 => ast::ArithmeticExpr::Assignment(var(), lit(0)),
                6 => ast::ArithmeticExpr::UnaryAssignment(ast::UnaryAssignmentOperator::PostfixIncrement, var()),
                _ => ast::ArithmeticExpr::BinaryAssignment(ast::BinaryOperator::Add, var(), lit(0)),
            };
            let r = t_dispatch(&e, depth, &mut o);
            assert!((k == 0) == (o.calls == 0), "C07.dispatch.only_a_literal_needs_no_nested_evaluation");
            std::mem::forget(r); std::mem::forget(e);
        }
        1 => { let (l, r_) = (lit(0), lit(1)); let r = t_binop(bop, &l, &r_, depth, &mut o); assert!(o.calls >= 1, "C07.binop.evaluates_operands"); std::mem::forget(r); std::mem::forget(l); std::mem::forget(r_); }
        2 => { let l = lit(0); let r = t_unop(ast::UnaryOperator::LogicalNot, &l, depth, &mut o); assert!(o.calls == 1, "C07.unop.evaluates_operand_once"); std::mem::forget(r); std::mem::forget(l); }
        _ => { let lv = var(); let r = t_incdec(&lv, ast::UnaryAssignmentOperator::PrefixDecrement, depth, &mut o); assert!(o.calls == 2, "C07.incdec.reads_then_stores"); std::mem::forget(r); std::mem::forget(lv); }
    }
    kani::cover!(which == 0 && k == 7, "compound_assignment_arm");
    kani::cover!(which == 1 && o.calls == 1, "short_circuit");
    assert!(o.restarts == 0, "C01.depth.no_nested_evaluation_restarts_at_depth_0");
    assert!(o.calls == 0 || (o.min_seen == depth && o.max_seen == depth), "C01.depth.passed_unchanged_to_every_nested_call");
}
