/*@meta
{
 'package': 'brush-core',
 'host': 'brush-core/src/interp.rs',
 'stubs': ['tracing -> no-op stub crate',
           'transplant of the whole `IoFileRedirectTarget::Filename` arm of setup_redirect on a duck-typed shell: std::fs::File::options() -> flag recorder; `PathBuf` -> a path token that remembers whether it was resolved against the shell\'s working directory and carries a symbolic "is an existing regular file" answer; shell.open_file -> recorder (may fail); word expansion -> oracle returning 0..2 fields',
           '`Vec` -> vk_prelude::ArrVec'],
 'assumptions': ['brush never chdir()s the process: a relative path means something only after Shell::absolute_path (read from shell/fs.rs, not encoded)'],
 'out_of_claim': ['what open(2) does with the flags (assumed contract, see redirect_flags)', 'descriptor duplication forms', 'restoration after the command'],
}
@*/
/*@recipes
{
 'filename_arm': {'file': 'brush-core/src/interp.rs', 'start': r'ast::IoFileRedirectTarget::Filename\(f\) => ', 'mode': 'fn_body',
        'rewrites': [[r'std::fs::File::options\(\)', r'Flags::default()', 1],
                     [r'expansion::full_expand_and_split_word\(shell, params, f\)\s*\.await', r'__o.expand()', 1]]},
}
@*/
use super::{ast, error, get_default_fd_for_redirect_kind, Path, ShellFd};
use crate::vk_prelude::ArrVec as Vec;

#[derive(Default, Clone, Copy)]
pub struct Flags { pub read: bool, pub write: bool, pub append: bool, pub truncate: bool, pub create: bool, pub create_new: bool }
impl Flags {
    pub fn read(&mut self, v: bool) -> &mut Self { self.read = v; self }
    pub fn write(&mut self, v: bool) -> &mut Self { self.write = v; self }
    pub fn append(&mut self, v: bool) -> &mut Self { self.append = v; self }
    pub fn truncate(&mut self, v: bool) -> &mut Self { self.truncate = v; self }
    pub fn create(&mut self, v: bool) -> &mut Self { self.create = v; self }
    pub fn create_new(&mut self, v: bool) -> &mut Self { self.create_new = v; self }
}
/// an expanded field
// (not zero-sized: CBMC 6.11 aborts in bits2expr when it builds a counterexample trace over an array of zero-sized elements)
#[derive(Clone, Copy)]
pub struct Fld(pub u8);
impl Fld { pub fn as_str(&self) -> &str { "" } }
/// stand-in for PathBuf: remembers how it was made
#[derive(Clone, Copy)]
pub struct PathTok { pub resolved_against_shell_cwd: bool, pub is_existing_regular_file: bool }
pub type PathBuf = PathTok;
impl PathTok {
    pub fn is_file(&self) -> bool { self.is_existing_regular_file }
    pub fn to_string_lossy(&self) -> std::borrow::Cow<'static, str> { std::borrow::Cow::Borrowed("") }
    pub fn exists(&self) -> bool { self.is_file() }
    pub fn as_path(&self) -> &PathTok { self }
}
// a path built straight from the field is relative to the *process* directory: what exists there is unrelated (carried by the field token)
impl From<Fld> for PathTok { fn from(f: Fld) -> Self { PathTok { resolved_against_shell_cwd: false, is_existing_regular_file: f.0 == 1 } } }
impl From<&str> for PathTok { fn from(_f: &str) -> Self { PathTok { resolved_against_shell_cwd: false, is_existing_regular_file: false } } }
impl AsRef<PathTok> for PathTok { fn as_ref(&self) -> &PathTok { self } }
pub struct OpenErr(pub u8);
impl std::fmt::Display for OpenErr { fn fmt(&self, _f: &mut std::fmt::Formatter<'_>) -> std::fmt::Result { Ok(()) } }
pub struct DOpts { pub disallow_overwriting_regular_files_via_output_redirection: bool }
pub struct DSh { pub exists_in_shell_cwd: bool, pub o: DOpts, pub opens: u8, pub opened_flags: Flags, pub opened_path_resolved: bool, pub open_fails: bool }
impl DSh {
    pub fn options(&self) -> &DOpts { &self.o }
    pub fn absolute_path(&self, _p: &Path) -> PathTok { PathTok { resolved_against_shell_cwd: true, is_existing_regular_file: self.exists_in_shell_cwd } }
    /// Shell::open_file resolves a relative path against the shell's working directory itself
    pub fn open_file<P: AsRef<PathTok>>(&mut self, opts: &Flags, p: P, _params: &DParams) -> Result<u8, OpenErr> {
        self.opens += 1; self.opened_flags = *opts; self.opened_path_resolved = p.as_ref().resolved_against_shell_cwd;
        if self.open_fails { Err(OpenErr(1)) } else { Ok(7) }
    }
}
pub struct DOpenFiles { pub set_fd_num: Option<ShellFd>, pub sets: u8 }
impl DOpenFiles { pub fn set_fd(&mut self, fd: ShellFd, _f: u8) { self.set_fd_num = Some(fd); self.sets += 1; } }
pub struct DParams { pub open_files: DOpenFiles }
pub struct XOracle { pub nfields: usize, pub exists_in_process_dir: bool }
impl XOracle { fn expand(&mut self) -> Result<Vec<Fld>, error::Error> { let mut v = Vec::new(); let b = self.exists_in_process_dir as u8; if self.nfields >= 1 { v.push(Fld(b)); } if self.nfields >= 2 { v.push(Fld(b)); } Ok(v) } }

fn t_filename_arm(shell: &mut DSh, params: &mut DParams, specified_fd_num: &Option<ShellFd>, kind: &ast::IoFileRedirectKind, __o: &mut XOracle) -> Result<(), error::Error> {
    {
/*@LIFT filename_arm*/
    }
    Ok(())
}

//@proof {'props': ['C10'], 'tier': 'quick', 'timeout': 900, 'uses': ['filename_arm'], 'bounds': 'redirection kind among < > >> <> >| (symbolic); noclobber on/off; the target exists or not - independently in the shell\'s working directory and in the process start directory; explicit fd 0..9 or none; the word expands to 0, 1 or 2 fields; open may fail', 'desc': 'file redirection end to end: a word that does not expand to exactly one field is an error and nothing is opened; the noclobber test looks at the file the redirection will open - the name resolved against the shell\'s working directory - so an existing regular file is never truncated or overwritten by `>` under noclobber; exactly one open; the result is installed at the explicit or default descriptor; an open failure is an error and installs nothing'}
#[kani::proof]
#[kani::unwind(8)]
fn vk_c10_file_redirect_path_and_noclobber() {
    let k: u8 = kani::any(); kani::assume(k < 5);
    let kind = match k { 0 => ast::IoFileRedirectKind::Read, 1 => ast::IoFileRedirectKind::Write, 2 => ast::IoFileRedirectKind::Append, 3 => ast::IoFileRedirectKind::ReadAndWrite, _ => ast::IoFileRedirectKind::Clobber };
    let noclobber: bool = kani::any();
    let (exists, exists_rel): (bool, bool) = (kani::any(), kani::any());
    let fd: Option<ShellFd> = if kani::any() { let n: ShellFd = kani::any(); kani::assume(n >= 0 && n <= 9); Some(n) } else { None };
    let mut sh = DSh { exists_in_shell_cwd: exists, o: DOpts { disallow_overwriting_regular_files_via_output_redirection: noclobber }, opens: 0, opened_flags: Flags::default(), opened_path_resolved: false, open_fails: kani::any() };
    let mut params = DParams { open_files: DOpenFiles { set_fd_num: None, sets: 0 } };
    let mut o = XOracle { nfields: kani::any(), exists_in_process_dir: exists_rel }; kani::assume(o.nfields <= 2);
    let r = t_filename_arm(&mut sh, &mut params, &fd, &kind, &mut o);
    kani::cover!(k == 1 && noclobber && exists && !exists_rel && o.nfields == 1, "noclobber_target_exists_only_in_the_shells_directory");
    kani::cover!(o.nfields == 2, "ambiguous_redirect");
    if o.nfields != 1 {
        assert!(r.is_err() && sh.opens == 0 && params.open_files.sets == 0, "C10.file.ambiguous_or_empty_target_is_an_error");
    } else {
        assert!(sh.opens == 1, "C10.file.exactly_one_open");
        let f = sh.opened_flags;
        if k == 1 && noclobber {
            // the decision must be about the file that is going to be opened
            assert!(f.write && !f.truncate, "C10.noclobber.never_truncates");
            assert!(f.create_new == exists, "C10.noclobber.existing_regular_file_in_the_shells_directory_is_refused");
            assert!(exists || f.create, "C10.noclobber.missing_file_is_created");
        }
        if k == 1 && !noclobber { assert!(f.write && f.create && f.truncate && !f.create_new, "C10.write.creates_and_truncates"); }
        if sh.open_fails { assert!(r.is_err() && params.open_files.sets == 0, "C10.file.open_failure_is_an_error_nothing_installed"); }
        else {
            let default_fd = if k == 0 || k == 3 { 0 } else { 1 };
            assert!(r.is_ok() && params.open_files.sets == 1 && params.open_files.set_fd_num == Some(fd.unwrap_or(default_fd)), "C10.file.installed_at_explicit_or_default_descriptor");
        }
    }
    std::mem::forget(r);
}
