/*@meta
{
 'package': 'brush-core',
 'host': 'brush-core/src/commands.rs',
 'stubs': ['tracing -> no-op stub crate',
           'block lift of the decision prefix of invoke_command_in_subshell_and_get_output (everything before the OS pipe is created); the shell and the execution parameters are duck-typed (options / options_mut / clone; suppress_errexit, process_group_policy)'],
 'assumptions': ['the rest of the function hands `subshell` and `params` unchanged to run_substitution_command (one tokio::spawn call; read, not encoded)'],
 'out_of_claim': ['the pipe, the reader task and the draining of the output', 'run_substitution_command (parsing, bare `< file`)', 'option toggling through the set builtin inside the substitution'],
}
@*/
/*@recipes
{
 'subst_prefix': {'file': 'brush-core/src/commands.rs', 'start': r'^\s*let mut subshell = shell\.clone\(\);', 'mode': 'until',
                  'end': r'^\s*(// Set up pipe so we can read the output\.\s*)?\n?\s*let \(reader, writer\) = std::io::pipe\(\)\?;'},
}
@*/
use super::{error, ProcessGroupPolicy};
use crate::vk_prelude::*;

#[derive(Clone)]
pub struct DOpts { pub command_subst_inherits_errexit: bool, pub exit_on_nonzero_command_exit: bool }
#[derive(Clone)]
pub struct DShell { pub opts: DOpts, pub clones: u8 }
impl DShell {
    pub fn options(&self) -> &DOpts { &self.opts }
    pub fn options_mut(&mut self) -> &mut DOpts { &mut self.opts }
}
#[derive(Clone)]
pub struct DParams { pub suppress_errexit: bool, pub process_group_policy: ProcessGroupPolicy }

fn k_subst_prefix(shell: &mut DShell, params: &DParams) -> (DShell, DParams) {
/*@LIFT subst_prefix*/
    (subshell, params)
}

//@proof {'props': ['C03'], 'tier': 'quick', 'timeout': 600, 'uses': ['subst_prefix'], 'bounds': 'errexit option, inherit_errexit option and the caller\'s exemption flag symbolic', 'desc': '$(...): the substituted program inherits the caller\'s errexit-exemption flag unchanged (a failure inside a substitution expanded in an exempt context never exits, even if errexit is re-enabled inside); the subshell keeps errexit iff inherit_errexit is on; the parent\'s options are untouched'}
#[kani::proof]
#[kani::unwind(3)]
fn vk_c03_command_substitution_flags() {
    let errexit: bool = kani::any();
    let inherit: bool = kani::any();
    let exempt: bool = kani::any();
    let mut sh = DShell { opts: DOpts { command_subst_inherits_errexit: inherit, exit_on_nonzero_command_exit: errexit }, clones: 0 };
    let p = DParams { suppress_errexit: exempt, process_group_policy: ProcessGroupPolicy::NewProcessGroup };
    let (sub, sp) = k_subst_prefix(&mut sh, &p);
    kani::cover!(exempt && inherit && errexit, "exempt_context_with_inherit_errexit");
    kani::cover!(!exempt && !inherit && errexit, "plain_substitution_drops_errexit");
    assert!(sp.suppress_errexit == exempt, "C03.subst.exemption_flag_inherited_unchanged");
    assert!(sub.opts.exit_on_nonzero_command_exit == (errexit && inherit), "C03.subst.errexit_kept_iff_inherit_errexit");
    assert!(sub.opts.command_subst_inherits_errexit == inherit, "C03.subst.other_options_copied");
    assert!(sh.opts.exit_on_nonzero_command_exit == errexit && sh.opts.command_subst_inherits_errexit == inherit, "C03.subst.parent_options_untouched");
    assert!(matches!(sp.process_group_policy, ProcessGroupPolicy::SameProcessGroup), "C11.subst.runs_in_shell_process_group");
}
