/*@meta
{
 'package': 'brush-core',
 'host': 'brush-core/src/commands.rs',
 'stubs': ['tracing -> no-op stub crate',
           'block lift of the decision prefix of invoke_command_in_subshell_and_get_output (everything before the OS pipe is created); the shell and the execution parameters are duck-typed (options / options_mut / clone; suppress_errexit, process_group_policy)'],
 'assumptions': ['the rest of the function hands `subshell` and `params` unchanged to run_substitution_command (one tokio::spawn call; read, not encoded)'],
 'out_of_claim': ['the pipe, the reader task and the draining of the output', 'run_substitution_command (parsing, bare `< file`)', 'option toggling through the set builtin inside the substitution'],
}
@*/
/*@recipes
{
 'subst_full': {'file': 'brush-core/src/commands.rs', 'start': r'pub\(crate\) async fn invoke_command_in_subshell_and_get_output\(', 'mode': 'fn_body', 'deasync': True,
                'rewrites': [[r'std::io::pipe\(\)', r'__o.pipe()', 1],
                             [r'sys::async_pipe::AsyncPipeReader::new\(reader\)', r'__o.reader(reader)', 1],
                             [r'tokio::spawn\(run_substitution_command\(subshell, params, s\)\)', r'__o.spawn(subshell, params, s)', 1],
                             [r'async_reader\.read_to_string\(\)', r'__o.drain(&mut async_reader)', 1],
                             [r'= cmd_join_handle\?;', r'= __o.join(cmd_join_handle)?;', 1]]},
 'subst_prefix': {'file': 'brush-core/src/commands.rs', 'start': r'^\s*let mut subshell = shell\.clone\(\);', 'mode': 'until',
                  'end': r'^\s*(// Set up pipe so we can read the output\.\s*)?\n?\s*let \(reader, writer\) = std::io::pipe\(\)\?;'},
}
@*/
use super::{error, ExecutionResult, OpenFiles, ProcessGroupPolicy};
use crate::vk_prelude::*;

#[derive(Clone)]
pub struct DOpts { pub command_subst_inherits_errexit: bool, pub exit_on_nonzero_command_exit: bool }
#[derive(Clone)]
pub struct DShell { pub opts: DOpts, pub clones: u8, pub status: u8, pub status_sets: u8 }
impl DShell {
    pub fn set_last_exit_status(&mut self, v: u8) { self.status = v; self.status_sets += 1; }
    pub fn options(&self) -> &DOpts { &self.opts }
    pub fn options_mut(&mut self) -> &mut DOpts { &mut self.opts }
}
#[derive(Clone)]
pub struct DParams { pub suppress_errexit: bool, pub process_group_policy: ProcessGroupPolicy, pub stdout: Option<End> }
impl DParams { pub fn set_fd(&mut self, fd: i32, e: End) { if fd == OpenFiles::STDOUT_FD { self.stdout = Some(e); } } }
#[derive(Clone, Copy, PartialEq, Eq)]
pub struct End { pub write: bool }
pub struct ReaderTok { pub from: End }
pub struct JoinTok;
pub struct PipeOracle { pub t: u8, pub spawned_at: u8, pub drained_at: u8, pub joined_at: u8, pub child_stdout: Option<End>, pub child_exempt: bool, pub child_errexit: bool, pub code: u8, pub spawns: u8, pub reader_end: Option<End> }
impl PipeOracle {
    fn tick(&mut self) -> u8 { self.t += 1; self.t }
    fn pipe(&mut self) -> Result<(End, End), error::Error> { Ok((End { write: false }, End { write: true })) }
    fn reader(&mut self, e: End) -> Result<ReaderTok, error::Error> { self.reader_end = Some(e); Ok(ReaderTok { from: e }) }
    fn spawn(&mut self, sub: DShell, p: DParams, s: String) -> JoinTok { std::mem::forget(s); self.spawns += 1; self.spawned_at = self.tick(); self.child_stdout = p.stdout; self.child_exempt = p.suppress_errexit; self.child_errexit = sub.opts.exit_on_nonzero_command_exit; JoinTok }
    /// reading the substitution's output to end-of-file
    fn drain(&mut self, _r: &mut ReaderTok) -> Result<String, error::Error> { self.drained_at = self.tick(); Ok(String::new()) }
    /// awaiting the producer task: Ok(Ok(result)) as a JoinHandle yields
    fn join(&mut self, _j: JoinTok) -> Result<Result<ExecutionResult, error::Error>, error::Error> { self.joined_at = self.tick(); Ok(Ok(ExecutionResult::new(self.code))) }
}

fn k_subst_prefix(shell: &mut DShell, params: &DParams) -> (DShell, DParams) {
/*@LIFT subst_prefix*/
    (subshell, params)
}

//@proof {'props': ['C03'], 'tier': 'quick', 'timeout': 600, 'uses': ['subst_prefix'], 'bounds': 'errexit option, inherit_errexit option and the caller\'s exemption flag symbolic', 'desc': '$(...): the substituted program inherits the caller\'s errexit-exemption flag unchanged (a failure inside a substitution expanded in an exempt context never exits, even if errexit is re-enabled inside); the subshell keeps errexit iff inherit_errexit is on; the parent\'s options are untouched'}
#[kani::proof]
#[kani::unwind(3)]
fn vk_c03_command_substitution_flags() {
    let errexit: bool = kani::any();
    let inherit: bool = kani::any();
    let exempt: bool = kani::any();
    let mut sh = DShell { opts: DOpts { command_subst_inherits_errexit: inherit, exit_on_nonzero_command_exit: errexit }, clones: 0, status: 0, status_sets: 0 };
    let p = DParams { suppress_errexit: exempt, process_group_policy: ProcessGroupPolicy::NewProcessGroup, stdout: None };
    let (sub, sp) = k_subst_prefix(&mut sh, &p);
    kani::cover!(exempt && inherit && errexit, "exempt_context_with_inherit_errexit");
    kani::cover!(!exempt && !inherit && errexit, "plain_substitution_drops_errexit");
    assert!(sp.suppress_errexit == exempt, "C03.subst.exemption_flag_inherited_unchanged");
    assert!(sub.opts.exit_on_nonzero_command_exit == (errexit && inherit), "C03.subst.errexit_kept_iff_inherit_errexit");
    assert!(sub.opts.command_subst_inherits_errexit == inherit, "C03.subst.other_options_copied");
    assert!(sh.opts.exit_on_nonzero_command_exit == errexit && sh.opts.command_subst_inherits_errexit == inherit, "C03.subst.parent_options_untouched");
    assert!(matches!(sp.process_group_policy, ProcessGroupPolicy::SameProcessGroup), "C11.subst.runs_in_shell_process_group");
}

fn t_subst_full(shell: &mut DShell, params: &DParams, s: String, __o: &mut PipeOracle) -> Result<String, error::Error> {
/*@LIFT subst_full*/
}

//@proof {'props': ['C11', 'C03'], 'tier': 'quick', 'timeout': 600, 'uses': ['subst_full'], 'bounds': 'errexit / inherit_errexit / exemption flag symbolic; the substituted program is an oracle with an arbitrary status', 'desc': '$(...) protocol: the program gets the write end of a fresh pipe as stdout; the parent starts it, then reads its output to end-of-file BEFORE waiting for it to finish (waiting first deadlocks once the output exceeds the pipe capacity); $? becomes the program\'s status exactly once'}
#[kani::proof]
#[kani::unwind(3)]
fn vk_c11_command_substitution_drains_before_join() {
    let mut sh = DShell { opts: DOpts { command_subst_inherits_errexit: kani::any(), exit_on_nonzero_command_exit: kani::any() }, clones: 0, status: 77, status_sets: 0 };
    let exempt: bool = kani::any();
    let p = DParams { suppress_errexit: exempt, process_group_policy: ProcessGroupPolicy::NewProcessGroup, stdout: None };
    let mut o = PipeOracle { t: 0, spawned_at: 0, drained_at: 0, joined_at: 0, child_stdout: None, child_exempt: false, child_errexit: false, code: kani::any(), spawns: 0, reader_end: None };
    let r = t_subst_full(&mut sh, &p, String::new(), &mut o);
    kani::cover!(o.code == 3, "status_3");
    assert!(r.is_ok(), "C11.subst.completes");
    assert!(o.spawns == 1 && o.child_stdout == Some(End { write: true }) && o.reader_end == Some(End { write: false }), "C11.subst.program_writes_into_the_pipe_parent_reads_it");
    assert!(o.spawned_at >= 1 && o.spawned_at < o.drained_at, "C11.subst.program_started_before_reading");
    assert!(o.drained_at < o.joined_at, "C11.subst.output_drained_before_waiting_for_the_program");
    assert!(sh.status == o.code && sh.status_sets == 1, "C11.subst.status_recorded_once");
    assert!(o.child_exempt == exempt, "C03.subst.exemption_flag_inherited_unchanged");
    std::mem::forget(r);
}
