/*@meta
{
 'package': 'brush-core',
 'host': 'brush-core/src/interp.rs',
 'direct': ['Shell::apply_errexit_if_enabled'],
 'stubs': ['tracing -> no-op', 'std::hash::RandomState::new -> fixed keys', 'std::time::SystemTime::now -> UNIX_EPOCH',
           'spawn_pipeline_processes(..).await + wait_for_pipeline_processes_and_update_status(..).await inside Pipeline::execute -> oracle returning an arbitrary status (and recording the errexit flag the stages would see)',
           'shell.invoke_trap_handler(ERR).await -> counter; shell.traps().handles(ERR) -> symbolic boolean', 'child.wait().await / child.poll().await in the status fold -> oracle statuses; the VecDeque of spawn results -> counter',
           'sys::terminal::move_self_to_foreground -> no-op'],
 'assumptions': ['pipelines of exactly 3 stages for the pipefail fold; statuses any u8', 'no stage reports "stopped" (job-control path is outside)'],
 'out_of_claim': ['command substitution / inherit_errexit', 'option toggling through the set builtin', 'errtrace', 'time keyword output', 'stopped (^Z) pipelines'],
}
@*/
/*@recipes
{
 'pipeline': {'file': 'brush-core/src/interp.rs', 'start': r'^impl Execute for ast::Pipeline \{\s*async fn execute\(', 'mode': 'fn_body', 'self_to': 'this',
              'rewrites': [[r'let spawn_results = spawn_pipeline_processes\(this, shell, &params\)\s*\.await\?;', r'let spawn_results = __o.spawn(&params)?;', 1],
                           [r'wait_for_pipeline_processes_and_update_status\(this, spawn_results, shell, &params\)\s*\.await', r'__o.wait(spawn_results, shell)', 1],
                           [r'shell\s*\.invoke_trap_handler\(crate::traps::TrapSignal::Err, &params\)\s*\.await', r'__o.err_trap(shell)', 1],
                           [r'shell\.traps\(\)\.handles\(crate::traps::TrapSignal::Err\)', r'__o.has_err_trap', 1]]},
 'pipewait': {'file': 'brush-core/src/interp.rs', 'start': r'^async fn wait_for_pipeline_processes_and_update_status\(', 'mode': 'fn_body',
              'rewrites': [[r'child\.poll\(\)\s*\.await', r'__o.wait(child)', 1], [r'child\.wait\(\)\s*\.await', r'__o.wait(child)', 1],
                           [r'sys::terminal::move_self_to_foreground\(\)', r'__o.foreground()', 1]]},
}
@*/
use super::*;
use crate::vk_prelude::*;
use crate::ExecutionControlFlow;

type Sh = Shell<extensions::DefaultShellExtensions>;

pub struct POracle { pub errexit_after: Option<bool>, pub flow: u8, pub handler_exits: Option<u8>, pub has_err_trap: bool, pub code: u8, pub stage_flag: Option<bool>, pub err_traps: u8, pub status_at_trap: u8, pub spawned: u8, pub waited: u8, pub trap_clobbers: u8 }
impl POracle {
    fn spawn(&mut self, p: &ExecutionParameters) -> Result<u8, error::Error> { self.spawned += 1; self.stage_flag = Some(p.suppress_errexit); Ok(0) }
    fn wait(&mut self, _r: u8, shell: &mut Sh) -> Result<ExecutionResult, error::Error> {
        self.waited += 1; shell.set_last_exit_status(self.code); let mut r = ExecutionResult::new(self.code);
        // the command itself may switch errexit (`f() { set -e; return 3; }; f`): what counts is the option when the pipeline ends
        if let Some(v) = self.errexit_after { shell.options_mut().exit_on_nonzero_command_exit = v; }
        // what the last stage asked for: 0 nothing, 1 exit, 2 return, 3 break, 4 continue
        r.next_control_flow = match self.flow { 1 => ExecutionControlFlow::ExitShell, 2 => ExecutionControlFlow::ReturnFromFunctionOrScript, 3 => ExecutionControlFlow::BreakLoop { levels: 0 }, 4 => ExecutionControlFlow::ContinueLoop { levels: 0 }, _ => ExecutionControlFlow::Normal };
        Ok(r)
    }
    fn err_trap(&mut self, shell: &mut Sh) -> Result<ExecutionResult, error::Error> {
        self.err_traps += 1; self.status_at_trap = shell.last_exit_status();
        match self.handler_exits { Some(c) => { let mut r = ExecutionResult::new(c); r.next_control_flow = ExecutionControlFlow::ExitShell; Ok(r) } None => Ok(ExecutionResult::success()) }
    }
}

fn t_pipeline(this: &ast::Pipeline, shell: &mut Sh, params: &ExecutionParameters, __o: &mut POracle) -> Result<ExecutionResult, error::Error> {
/*@LIFT pipeline*/
}

//@proof {'props': ['C03', 'C02', 'C16'], 'tier': 'quick', 'timeout': 900, 'uses': ['pipeline'], 'bounds': 'errexit option, `!`, inherited exemption flag, ERR trap registered?, pipeline status any u8 - all symbolic', 'render': 'pipeline', 'desc': 'one pipeline: `!` inverts the status to 0/1; $? is the (inverted) status; errexit turns a failure into exit iff the option is on, the pipeline is not exempt and not negated, and is applied exactly once; the ERR trap fires in exactly that non-exempt failing case (whether or not errexit is on) and sees the failing status; stages of a `!` pipeline are exempt, others inherit the flag'}
#[kani::proof]
#[kani::unwind(4)]
#[kani::stub(std::hash::RandomState::new, crate::vk_prelude::stub_random_state_new)]
#[kani::stub(std::time::SystemTime::now, crate::vk_prelude::stub_now)]
fn vk_c03_pipeline_errexit() {
    let mut shell: Sh = Shell::default();
    let errexit_before: bool = kani::any();
    shell.options_mut().exit_on_nonzero_command_exit = errexit_before;
    // the command may toggle the option while it runs
    let errexit_after: Option<bool> = if kani::any() { Some(kani::any()) } else { None };
    let errexit = errexit_after.unwrap_or(errexit_before);
    let has_err_trap: bool = kani::any();
    let mut params = ExecutionParameters::default();
    let parent_flag: bool = kani::any();
    params.suppress_errexit = parent_flag;
    let bang: bool = kani::any();
    let p = ast::Pipeline { timed: None, bang, seq: Vec::new() };
    let mut o = POracle { errexit_after, flow: 0, handler_exits: None, has_err_trap, code: kani::any(), stage_flag: None, err_traps: 0, status_at_trap: 0, spawned: 0, waited: 0, trap_clobbers: 0 };
    let r = vk_ok(t_pipeline(&p, &mut shell, &params, &mut o));
    let status = if bang { if o.code == 0 { 1 } else { 0 } } else { o.code };
    let should_exit = errexit && !bang && !parent_flag && status != 0;
    kani::cover!(should_exit, "errexit_fires");
    kani::cover!(should_exit && !errexit_before, "errexit_switched_on_by_the_command_itself");
    kani::cover!(bang && o.code == 0 && errexit, "negated_success_fails_without_exit");
    kani::cover!(has_err_trap && !errexit && !bang && !parent_flag && status != 0, "err_trap_without_errexit");
    assert!(o.spawned == 1 && o.waited == 1, "C11.pipeline.spawn_then_wait_once");
    assert!(u8::from(r.exit_code) == status, "C02.pipeline.status_and_negation");
    assert!(shell.last_exit_status() == status, "C02.pipeline.dollar_question");
    assert!(matches!(r.next_control_flow, ExecutionControlFlow::ExitShell) == should_exit, "C03.pipeline.errexit_exactly_when_due");
    if !should_exit { assert!(r.is_normal_flow(), "C03.pipeline.otherwise_normal_flow"); }
    assert!(o.stage_flag == Some(parent_flag || bang), "C03.pipeline.negated_stages_exempt_others_inherit");
    let trap_due = has_err_trap && !bang && !parent_flag && status != 0;
    assert!(o.err_traps == if trap_due { 1 } else { 0 }, "C16.pipeline.err_trap_fires_exactly_where_errexit_would_apply");
    if trap_due { assert!(o.status_at_trap == status, "C16.pipeline.err_trap_sees_failing_status"); }
    std::mem::forget(p); std::mem::forget(shell); std::mem::forget(params);
}

//@proof {'props': ['C03'], 'tier': 'quick', 'timeout': 600, 'bounds': 'errexit option and status symbolic', 'desc': 'apply_errexit_if_enabled: (status != 0, normal flow) becomes exit iff the option is on; a success or a pending break/return is left alone'}
#[kani::proof]
#[kani::unwind(4)]
#[kani::stub(std::hash::RandomState::new, crate::vk_prelude::stub_random_state_new)]
#[kani::stub(std::time::SystemTime::now, crate::vk_prelude::stub_now)]
fn vk_c03_apply_errexit() {
    let mut shell: Sh = Shell::default();
    let e: bool = kani::any();
    shell.options_mut().exit_on_nonzero_command_exit = e;
    let code: u8 = kani::any();
    let f: u8 = any_below(4);
    let mut r = ExecutionResult::new(code);
    r.next_control_flow = match f { 0 => ExecutionControlFlow::Normal, 1 => ExecutionControlFlow::BreakLoop { levels: 0 }, 2 => ExecutionControlFlow::ReturnFromFunctionOrScript, _ => ExecutionControlFlow::ExitShell };
    shell.apply_errexit_if_enabled(&mut r);
    kani::cover!(e && code == 1 && f == 0, "exits");
    assert!(u8::from(r.exit_code) == code, "C03.errexit.status_unchanged");
    if e && code != 0 && f == 0 { assert!(matches!(r.next_control_flow, ExecutionControlFlow::ExitShell), "C03.errexit.failure_becomes_exit"); }
    if code == 0 || !e {
        let same = match (f, r.next_control_flow) { (0, ExecutionControlFlow::Normal) | (1, ExecutionControlFlow::BreakLoop { levels: 0 }) | (2, ExecutionControlFlow::ReturnFromFunctionOrScript) | (3, ExecutionControlFlow::ExitShell) => true, _ => false };
        assert!(same, "C03.errexit.otherwise_untouched");
    }
    std::mem::forget(shell);
}

// ---------------------------------------------------------------- PIPESTATUS / pipefail fold
pub struct MockChild;
pub struct MockQueue { pub left: usize }
impl MockQueue { pub fn pop_front(&mut self) -> Option<MockChild> { if self.left > 0 { self.left -= 1; Some(MockChild) } else { None } } }
pub struct WOracle { pub codes: [u8; 3], pub flows: [u8; 3], pub next: usize, pub fg: u8 }
impl WOracle {
    fn wait(&mut self, _child: MockChild) -> Result<ExecutionWaitResult, error::Error> {
        let i = self.next; self.next += 1;
        kani::assume(i < 3);
        let mut r = ExecutionResult::new(self.codes[i]);
        // what the stage asked for: 0 nothing, 1 exit, 2 return, 3 break
        r.next_control_flow = match self.flows[i] { 1 => ExecutionControlFlow::ExitShell, 2 => ExecutionControlFlow::ReturnFromFunctionOrScript, 3 => ExecutionControlFlow::BreakLoop { levels: 0 }, _ => ExecutionControlFlow::Normal };
        Ok(ExecutionWaitResult::Completed(r))
    }
    fn foreground(&mut self) -> Result<(), error::Error> { self.fg += 1; Ok(()) }
}
fn t_pipewait(pipeline: &ast::Pipeline, mut process_spawn_results: MockQueue, shell: &mut Sh, params: &ExecutionParameters, __o: &mut WOracle) -> Result<ExecutionResult, error::Error> {
/*@LIFT pipewait*/
}

fn three_stages(n: usize) -> Vec<ast::Command> {
    let mut v = Vec::with_capacity(3);
    let mut i = 0; while i < n { v.push(ast::Command::Simple(ast::SimpleCommand { prefix: None, word_or_name: None, suffix: None })); i += 1; }
    v
}

fn stage_requests(n: usize) {
    let mut shell: Sh = Shell::default();
    let lastpipe: bool = kani::any(); let jobctl: bool = kani::any();
    shell.options_mut().run_last_pipeline_cmd_in_current_shell = lastpipe;
    shell.options_mut().enable_job_control = jobctl;
    let params = ExecutionParameters::default();
    let single = n == 1;
    let p = ast::Pipeline { timed: None, bang: false, seq: three_stages(n) };
    let q = MockQueue { left: n };
    let flows: [u8; 3] = [any_below(4), any_below(4), any_below(4)];
    let mut o = WOracle { codes: [kani::any(), kani::any(), kani::any()], flows, next: 0, fg: 0 };
    let r = vk_ok(t_pipewait(&p, q, &mut shell, &params, &mut o));
    let last = n - 1;
    let last_in_current_shell = single || (lastpipe && !jobctl);
    kani::cover!(single || (!last_in_current_shell && flows[2] == 1 && o.codes[2] == 3), "exit_3_in_the_last_stage_of_three");
    kani::cover!(!single || flows[0] == 1, "plain_exit");
    kani::cover!(single || (last_in_current_shell && flows[2] == 2), "return_in_the_last_stage_under_lastpipe");
    assert!(u8::from(r.exit_code) == o.codes[last], "C02.pipeline.status_is_the_last_stages");
    if last_in_current_shell { assert!(r.is_normal_flow() == (flows[last] == 0), "C02.pipeline.request_of_a_stage_in_the_current_shell_passes_through"); }
    else { assert!(r.is_normal_flow(), "C02.pipeline.requests_of_a_stage_in_its_own_subshell_do_not_reach_the_parent"); }
    std::mem::forget(p); std::mem::forget(shell); std::mem::forget(params);
}

//@proof {'props': ['C02', 'C16', 'C11'], 'tier': 'quick', 'timeout': 900, 'uses': ['pipewait'], 'bounds': 'a pipeline of 3 stages; each stage ends with any status and asks for nothing / exit / return / break (symbolic); lastpipe and job-control options symbolic', 'desc': 'a stage that ran in its own subshell hands back a status only - `true | exit 3; echo after` goes on, `true | return 4` does not return from the function; the last stage under lastpipe without job control runs in the current shell and keeps its request'}
#[kani::proof]
#[kani::unwind(5)]
#[kani::stub(std::hash::RandomState::new, crate::vk_prelude::stub_random_state_new)]
#[kani::stub(std::time::SystemTime::now, crate::vk_prelude::stub_now)]
fn vk_c02_pipeline_stage_requests_stay_in_their_subshell() { stage_requests(3); }

//@proof {'props': ['C02', 'C16'], 'tier': 'quick', 'timeout': 900, 'uses': ['pipewait'], 'bounds': 'a single command; status any u8; request nothing / exit / return / break (symbolic); options symbolic', 'desc': 'a single command runs in the current shell: its exit / return / break request passes through the pipeline layer'}
#[kani::proof]
#[kani::unwind(5)]
#[kani::stub(std::hash::RandomState::new, crate::vk_prelude::stub_random_state_new)]
#[kani::stub(std::time::SystemTime::now, crate::vk_prelude::stub_now)]
fn vk_c02_single_command_request_passes_through() { stage_requests(1); }

//@proof {'props': ['C03', 'C11'], 'tier': 'quick', 'timeout': 900, 'uses': ['pipewait'], 'bounds': '3 stages, statuses any u8, pipefail symbolic', 'render': 'pipefail', 'desc': 'a | b | c: every stage is waited for in order; PIPESTATUS lists all three; status is that of c, or with pipefail that of the last (rightmost) failing stage; $? agrees'}
#[kani::proof]
#[kani::unwind(5)]
#[kani::stub(std::hash::RandomState::new, crate::vk_prelude::stub_random_state_new)]
#[kani::stub(std::time::SystemTime::now, crate::vk_prelude::stub_now)]
fn vk_c03_pipefail_3() {
    let mut shell: Sh = Shell::default();
    let pipefail: bool = kani::any();
    shell.options_mut().return_last_failure_from_pipeline = pipefail;
    let params = ExecutionParameters::default();
    let p = ast::Pipeline { timed: None, bang: false, seq: three_stages(3) };
    let q = MockQueue { left: 3 };
    let mut o = WOracle { codes: [kani::any(), kani::any(), kani::any()], flows: [0; 3], next: 0, fg: 0 };
    let r = vk_ok(t_pipewait(&p, q, &mut shell, &params, &mut o));
    let c = o.codes;
    kani::cover!(pipefail && c[2] == 0 && c[0] != 0 && c[1] == 0, "first_stage_failure_surfaces");
    kani::cover!(!pipefail && c[2] == 0 && c[1] != 0, "middle_failure_hidden_without_pipefail");
    let expect = if pipefail { if c[2] != 0 { c[2] } else if c[1] != 0 { c[1] } else if c[0] != 0 { c[0] } else { 0 } } else { c[2] };
    assert!(o.next == 3, "C11.pipewait.every_stage_waited");
    assert!(u8::from(r.exit_code) == expect && r.is_normal_flow(), "C03.pipefail.status");
    let ps = shell.last_pipeline_statuses();
    assert!(ps.len() == 3 && ps[0] == c[0] && ps[1] == c[1] && ps[2] == c[2], "C11.pipestatus.all_stages_in_order");
    std::mem::forget(p); std::mem::forget(shell); std::mem::forget(params);
}

fn exit_return_step(modulo_known: bool) {
    let mut shell: Sh = Shell::default();
    let errexit: bool = kani::any();
    shell.options_mut().exit_on_nonzero_command_exit = errexit;
    let has_err_trap: bool = kani::any();
    let mut params = ExecutionParameters::default();
    let parent_flag: bool = kani::any();
    params.suppress_errexit = parent_flag;
    let bang: bool = kani::any();
    let p = ast::Pipeline { timed: None, bang, seq: Vec::new() };
    let flow: u8 = any_below(5);
    let handler_exits: Option<u8> = if kani::any() { Some(kani::any()) } else { None };
    let mut o = POracle { errexit_after: None, flow, handler_exits, has_err_trap, code: kani::any(), stage_flag: None, err_traps: 0, status_at_trap: 0, spawned: 0, waited: 0, trap_clobbers: 0 };
    let leaving = flow == 1 || flow == 2;
    // KNOWN FINDING D28 region: an `exit n` / `return n` request with n != 0 reaching a pipeline where the ERR trap would fire for a failure
    if modulo_known { kani::assume(!(leaving && has_err_trap && !bang && !parent_flag && o.code != 0)); }
    let r = vk_ok(t_pipeline(&p, &mut shell, &params, &mut o));
    let status = if bang && !leaving { if o.code == 0 { 1 } else { 0 } } else { o.code };
    let trap_due = has_err_trap && !bang && !parent_flag && status != 0 && !leaving;
    kani::cover!(bang && flow == 1 && o.code == 3, "negated_exit_3");
    kani::cover!(trap_due && handler_exits == Some(5), "err_handler_calls_exit_5");
    kani::cover!(flow == 3 && bang, "negated_break");
    kani::cover!(modulo_known || (leaving && has_err_trap && !bang && !parent_flag && o.code != 0), "exit_request_where_the_err_trap_is_armed");
    assert!(o.err_traps == trap_due as u8, "C16.pipeline.err_trap_not_fired_by_exit_or_return_requests");
    if trap_due && handler_exits.is_some() {
        assert!(matches!(r.next_control_flow, ExecutionControlFlow::ExitShell) && Some(u8::from(r.exit_code)) == handler_exits, "C16.pipeline.exit_in_the_err_handler_ends_the_shell_with_its_status");
    } else {
        assert!(u8::from(r.exit_code) == status, "C02.pipeline.exit_and_return_status_not_inverted");
        assert!(shell.last_exit_status() == status, "C02.pipeline.dollar_question");
        match flow {
            1 => assert!(matches!(r.next_control_flow, ExecutionControlFlow::ExitShell), "C16.pipeline.exit_request_passes_through"),
            2 => assert!(matches!(r.next_control_flow, ExecutionControlFlow::ReturnFromFunctionOrScript), "C02.pipeline.return_request_passes_through"),
            3 | 4 => { let exits = errexit && !bang && !parent_flag && status != 0; assert!(exits || r.is_break() || r.is_continue(), "C02.pipeline.loop_control_passes_through"); }
            _ => {}
        }
    }
    std::mem::forget(p); std::mem::forget(shell); std::mem::forget(params);
}

//@proof {'props': ['C16'], 'tier': 'quick', 'timeout': 900, 'uses': ['pipeline'], 'known': 'D28', 'bounds': 'the pipeline ends in `exit n` / `return n` / `break` / `continue` or normally (symbolic), status any u8; `!`, errexit, inherited exemption, ERR trap registered, ERR handler calling `exit m` - all symbolic', 'desc': 'FULL contract of exit / return requests passing through a pipeline, expected to fail on the recorded finding D28 (`exit 3` and `return 3` fire the ERR trap as if they were failing commands)'}
#[kani::proof]
#[kani::unwind(4)]
#[kani::stub(std::hash::RandomState::new, crate::vk_prelude::stub_random_state_new)]
#[kani::stub(std::time::SystemTime::now, crate::vk_prelude::stub_now)]
fn vk_c16_pipeline_exit_return_full() { exit_return_step(false); }

//@proof {'props': ['C16', 'C02', 'C03'], 'tier': 'quick', 'timeout': 900, 'uses': ['pipeline'], 'bounds': 'as above; the D28 region (a non-zero exit / return request where the ERR trap is armed) is assumed away', 'desc': 'exit and return requests pass through a pipeline untouched: `! exit 3` ends the shell with 3 and `! return 3` returns 3 (no inversion); break / continue keep their flow; an ERR handler that calls `exit m` ends the shell with m; otherwise the handler changes nothing'}
#[kani::proof]
#[kani::unwind(4)]
#[kani::stub(std::hash::RandomState::new, crate::vk_prelude::stub_random_state_new)]
#[kani::stub(std::time::SystemTime::now, crate::vk_prelude::stub_now)]
fn vk_c16_pipeline_exit_return_modulo_known() { exit_return_step(true); }

//@proof {'props': ['C11', 'C02'], 'tier': 'quick', 'timeout': 600, 'bounds': 'previous and new status any u8 (equal or not)', 'desc': 'Shell::set_last_exit_status (called directly): the status is stored and the change counter advances on EVERY call - the assignment-only statement `x=$(cmd)` recognises "a substitution set a status" by that counter, also when cmd ends with the status the previous command left'}
#[kani::proof]
#[kani::unwind(4)]
#[kani::stub(std::hash::RandomState::new, crate::vk_prelude::stub_random_state_new)]
#[kani::stub(std::time::SystemTime::now, crate::vk_prelude::stub_now)]
fn vk_c11_status_change_counted_on_every_set() {
    let mut shell: Sh = Shell::default();
    let before: u8 = kani::any();
    shell.set_last_exit_status(before);
    let n0 = shell.last_exit_status_change_count();
    let s: u8 = kani::any();
    shell.set_last_exit_status(s);
    kani::cover!(s == before && s != 0, "same_non_zero_status_twice");
    assert!(shell.last_exit_status() == s, "C02.status.stored");
    assert!(shell.last_exit_status_change_count() == n0 + 1, "C11.status.substitution_status_detected_even_when_equal_to_the_previous_one");
    std::mem::forget(shell);
}

fn brace_group() -> ast::Command { ast::Command::Compound(ast::CompoundCommand::BraceGroup(ast::BraceGroupCommand { list: ast::CompoundList(Vec::new()), loc: Default::default() }), None) }

//@proof {'props': ['C11', 'C02'], 'tier': 'quick', 'timeout': 900, 'uses': ['pipewait'], 'bounds': 'a one-element pipeline whose element is a simple command or a brace group (symbolic), ending with any status; PIPESTATUS holding two statuses from an earlier pipeline', 'desc': 'PIPESTATUS: a simple command replaces it by its own status; a grouping command on its own (`{ a | b; }`, and likewise if / for / while / case) leaves the statuses of the last pipeline that ran inside it (bash: `{ (exit 3)|(exit 4); }; echo ${PIPESTATUS[@]}` prints 3 4)'}
#[kani::proof]
#[kani::unwind(5)]
#[kani::stub(std::hash::RandomState::new, crate::vk_prelude::stub_random_state_new)]
#[kani::stub(std::time::SystemTime::now, crate::vk_prelude::stub_now)]
fn vk_c11_pipestatus_of_a_grouping_command() {
    let mut shell: Sh = Shell::default();
    shell.last_pipeline_statuses_mut().clear(); shell.last_pipeline_statuses_mut().push(3); shell.last_pipeline_statuses_mut().push(4);
    let params = ExecutionParameters::default();
    let grouping: bool = kani::any();
    let mut seq = Vec::with_capacity(1);
    seq.push(if grouping { brace_group() } else { ast::Command::Simple(ast::SimpleCommand { prefix: None, word_or_name: None, suffix: None }) });
    let p = ast::Pipeline { timed: None, bang: false, seq };
    let q = MockQueue { left: 1 };
    let mut o = WOracle { codes: [kani::any(), 0, 0], flows: [0; 3], next: 0, fg: 0 };
    let r = vk_ok(t_pipewait(&p, q, &mut shell, &params, &mut o));
    kani::cover!(grouping, "grouping_command");
    assert!(u8::from(r.exit_code) == o.codes[0] && shell.last_exit_status() == o.codes[0], "C02.pipeline.status_and_dollar_question");
    let ps = shell.last_pipeline_statuses();
    if grouping { assert!(ps.len() == 2 && ps[0] == 3 && ps[1] == 4, "C11.pipestatus.a_grouping_command_keeps_the_statuses_recorded_inside_it"); }
    else { assert!(ps.len() == 1 && ps[0] == o.codes[0], "C11.pipestatus.a_simple_command_sets_its_own_status"); }
    std::mem::forget(p); std::mem::forget(shell); std::mem::forget(params);
}
