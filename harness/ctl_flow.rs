/*@meta
{
 'package': 'brush-core',
 'host': 'brush-core/src/interp.rs',
 'stubs': ['tracing -> no-op stub crate', 'std::hash::RandomState::new -> fixed keys', 'std::time::SystemTime::now -> UNIX_EPOCH',
           'every `<child>.execute(shell, params).await` inside a lifted body -> oracle `__o.child(node id, shell, params)` returning an arbitrary (status u8, control flow, Ok/Err) per call, recording call order and the suppress_errexit flag it was handed; the oracle sets $? like a real child',
           'expansion / pattern matching / trace_command / arithmetic eval awaited inside for, case and arithmetic-for -> oracle answers (symbolic)'],
 'assumptions': ['child results: status any u8; flow in {normal, break 1, break 2, continue 1, continue 2, return, exit}; children may fail with an error where noted',
                 'AST shapes are concrete (listed per harness); operators (&&/||, ;;/;&/;;&, while/until) are symbolic'],
 'out_of_claim': ['simple-command dispatch and builtins (break/continue/return/exit argument parsing, i8 level)', 'eval / source', 'the parser\'s recognition of constructs',
                  'background (&) items of a compound list', 'nesting deeper than one construct per harness (covered by the structural-induction argument of DESIGN 3.2, not by a solver run)'],
}
@*/
/*@recipes
{
 'andor': {'file': 'brush-core/src/interp.rs', 'start': r'^impl Execute for ast::AndOrList \{\s*async fn execute\(', 'mode': 'fn_body', 'self_to': 'this',
           'rewrites': [[r'([\w\.]+)\s*\.execute\(\s*shell,\s*([^)]*?)\)\s*\.await', r'__o.child(\1.vk_id(), shell, \2)', 2]]},
 'clist': {'file': 'brush-core/src/interp.rs', 'start': r'^impl Execute for ast::CompoundList \{\s*async fn execute\(', 'mode': 'fn_body', 'self_to': 'this',
           'rewrites': [[r'([\w\.]+)\s*\.execute\(\s*shell,\s*([^)]*?)\)\s*\.await', r'__o.child(\1.vk_id(), shell, \2)', 1],
                        [r'spawn_async_ao_list_in_task\(ao_list, shell, params\)', r'__o.spawn_async(ao_list)', 1],
                        [r'job\.to_pid_style_string\(\)', r'String::new()', 1]]},
 'program': {'file': 'brush-core/src/interp.rs', 'start': r'^impl Execute for ast::Program \{\s*async fn execute\(', 'mode': 'fn_body', 'self_to': 'this',
           'rewrites': [[r'([\w\.]+)\s*\.execute\(\s*shell,\s*([^)]*?)\)\s*\.await', r'__o.child(\1.vk_id(), shell, \2)', 1],
                        [r'shell\.display_error\(&mut params\.stderr\(shell\), &err\)', r'__o.display_error(&err)', 1]]},
 'ifc': {'file': 'brush-core/src/interp.rs', 'start': r'^impl Execute for ast::IfClauseCommand \{\s*async fn execute\(', 'mode': 'fn_body', 'self_to': 'this',
           'rewrites': [[r'([\w\.]+)\s*\.execute\(\s*shell,\s*([^)]*?)\)\s*\.await', r'__o.child(\1.vk_id(), shell, \2)', 5]]},
 'whileu': {'file': 'brush-core/src/interp.rs', 'start': r'^impl Execute for \(WhileOrUntil, &ast::WhileOrUntilClauseCommand\) \{\s*async fn execute\(', 'mode': 'fn_body', 'self_to': 'this',
           'rewrites': [[r'([\w\.]+)\s*\.execute\(\s*shell,\s*([^)]*?)\)\s*\.await', r'__o.child(\1.vk_id(), shell, \2)', 2]]},
 'forc': {'file': 'brush-core/src/interp.rs', 'start': r'^impl Execute for ast::ForClauseCommand \{\s*async fn execute\(', 'mode': 'fn_body', 'self_to': 'this',
           'rewrites': [[r'([\w\.]+)\s*\.execute\(\s*shell,\s*([^)]*?)\)\s*\.await', r'__o.child(\1.vk_id(), shell, \2)', 1],
                        [r'expansion::full_expand_and_split_word\(shell, params, value\)\s*\.await', r'__o.expand_word(value)', 1],
                        [r'shell\s*\.trace_command\((?:[^;]|\n)*?\)\s*\.await;', r'__o.trace();', 2],
                        [r'shell\.env_mut\(\)\.update_or_add\(\s*&this\.variable_name,\s*ShellValueLiteral::Scalar\(value\),\s*\|_\| Ok\(\(\)\),\s*EnvironmentLookup::Anywhere,\s*EnvironmentScope::Global,\s*\)', r'__o.set_loop_var(&this.variable_name, value)', 1]]},
 'aforc': {'file': 'brush-core/src/interp.rs', 'start': r'^impl Execute for ast::ArithmeticForClauseCommand \{\s*async fn execute\(', 'mode': 'fn_body', 'self_to': 'this',
           'rewrites': [[r'([\w\.]+)\s*\.execute\(\s*shell,\s*([^)]*?)\)\s*\.await', r'__o.child(\1.vk_id(), shell, \2)', 1],
                        [r'(\w+)\.eval\(shell, params, true\)\s*\.await', r'__o.arith(\1.vk_id())', 3]]},
 'arithcmd': {'file': 'brush-core/src/interp.rs', 'start': r'^impl Execute for ast::ArithmeticCommand \{\s*async fn execute\(', 'mode': 'fn_body', 'self_to': 'this',
           'rewrites': [[r'this\.expr\.eval\(shell, params, true\)\s*\.await', r'__o.arith(this.expr.vk_id())', 1]]},
 'casec': {'file': 'brush-core/src/interp.rs', 'start': r'^impl Execute for ast::CaseClauseCommand \{\s*async fn execute\(', 'mode': 'fn_body', 'self_to': 'this',
           'rewrites': [[r'([\w\.]+)\s*\.execute\(\s*shell,\s*([^)]*?)\)\s*\.await', r'__o.child(\1.vk_id(), shell, \2)', 1],
                        [r'shell\s*\.trace_command\((?:[^;]|\n)*?\)\s*\.await;', r'__o.trace();', 1],
                        [r'expansion::basic_expand_word\(shell, params, &this\.value\)\s*\.await\?', r'String::new()', 1],
                        [r'expansion::basic_expand_pattern\(shell, params, pattern\)\s*\.await\?\s*\.set_extended_globbing\(shell\.options\(\)\.extended_globbing\)\s*\.set_case_insensitive\(shell\.options\(\)\.case_insensitive_conditionals\)', r'__o.pattern(pattern)', 1]]},
 'subshell': {'file': 'brush-core/src/interp.rs', 'start': r'Self::Subshell\(ast::SubshellCommand \{ list, \.\. \}\) => ', 'mode': 'fn_body',
           'rewrites': [[r'([\w\.]+)\s*\.execute\(\s*&mut subshell,\s*([^)]*?)\)\s*\.await', r'__o.child_sub(\1.vk_id(), &mut subshell, \2)', 1],
                        [r'let mut subshell = shell\.clone\(\);', r'let mut subshell = __o.clone_shell(shell);', 1],
                        [r'let mut stderr = params\.stderr\(shell\);\s*let _ = shell\.display_error\(&mut stderr, &error\);', r'__o.display_error(&error);', 1],
                        [r'error\.into_result\(&subshell\)', r'__o.error_result(error)', 1]]},
}
@*/
use super::*;
use crate::vk_prelude::*;
use crate::ExecutionControlFlow as CF;

type Sh = Shell<extensions::DefaultShellExtensions>;

// ---------------------------------------------------------------- node identity (address of the concrete AST node)
pub trait VkId { fn vk_id(&self) -> usize; }
impl VkId for ast::Pipeline { fn vk_id(&self) -> usize { self as *const Self as usize } }
impl VkId for ast::AndOrList { fn vk_id(&self) -> usize { self as *const Self as usize } }
impl VkId for ast::CompoundList { fn vk_id(&self) -> usize { self as *const Self as usize } }
impl VkId for ast::UnexpandedArithmeticExpr { fn vk_id(&self) -> usize { self as *const Self as usize } }

pub fn flow(f: u8) -> CF {
    match f {
        0 => CF::Normal,
        1 => CF::BreakLoop { levels: 0 },
        2 => CF::BreakLoop { levels: 1 },
        3 => CF::ContinueLoop { levels: 0 },
        4 => CF::ContinueLoop { levels: 1 },
        5 => CF::ReturnFromFunctionOrScript,
        _ => CF::ExitShell,
    }
}
pub fn flow_tag(c: &CF) -> u8 {
    match c {
        CF::Normal => 0,
        CF::BreakLoop { levels: 0 } => 1,
        CF::BreakLoop { levels: 1 } => 2,
        CF::ContinueLoop { levels: 0 } => 3,
        CF::ContinueLoop { levels: 1 } => 4,
        CF::ReturnFromFunctionOrScript => 5,
        CF::ExitShell => 6,
        _ => 99,
    }
}

pub const MAXC: usize = 6;
/// Oracle standing in for child execution. Outcomes are indexed by call order.
pub struct Kids {
    pub ids: [usize; 5],
    pub codes: [u8; MAXC], pub flows: [u8; MAXC], pub errs: [bool; MAXC],
    pub seq: [u8; MAXC], pub flags: [bool; MAXC], pub st_in: [u8; MAXC], pub n: usize,
    pub pat: [bool; 4], pub pats: usize, pub traces: u8, pub displayed: u8, pub asyncs: u8,
    pub words: u8, pub loop_var_sets: u8, pub arith: [i64; 6], pub arith_seq: [u8; 6], pub ariths: usize, pub clones: u8,
    pub in_subshell_calls: u8,
}
impl Kids {
    pub fn new(ids: [usize; 5]) -> Self {
        let k = Kids { ids, codes: [kani::any(), kani::any(), kani::any(), kani::any(), kani::any(), kani::any()], flows: [kani::any(), kani::any(), kani::any(), kani::any(), kani::any(), kani::any()], errs: [false; MAXC], seq: [9; MAXC], flags: [false; MAXC], st_in: [0; MAXC], n: 0,
                       pat: [kani::any(), kani::any(), kani::any(), kani::any()], pats: 0, traces: 0, displayed: 0, asyncs: 0, words: 0, loop_var_sets: 0,
                       arith: [kani::any(), kani::any(), kani::any(), kani::any(), kani::any(), kani::any()], arith_seq: [9; 6], ariths: 0, clones: 0, in_subshell_calls: 0 };
        kani::assume(k.flows[0] < 7 && k.flows[1] < 7 && k.flows[2] < 7 && k.flows[3] < 7 && k.flows[4] < 7 && k.flows[5] < 7);
        k
    }
    fn idx(&self, id: usize) -> u8 {
        if id == self.ids[0] { 0 } else if id == self.ids[1] { 1 } else if id == self.ids[2] { 2 } else if id == self.ids[3] { 3 } else if id == self.ids[4] { 4 } else { 8 }
    }
    pub fn child(&mut self, id: usize, shell: &mut Sh, p: &ExecutionParameters) -> Result<ExecutionResult, error::Error> {
        let k = self.n;
        kani::assume(k < MAXC);
        self.n += 1;
        self.seq[k] = self.idx(id);
        self.flags[k] = p.suppress_errexit;
        self.st_in[k] = shell.last_exit_status();
        if self.errs[k] { return Err(error::ErrorKind::NotArray.into()); }
        shell.set_last_exit_status(self.codes[k]);
        let mut r = ExecutionResult::new(self.codes[k]);
        r.next_control_flow = flow(self.flows[k]);
        Ok(r)
    }
    pub fn display_error(&mut self, _e: &error::Error) -> Result<(), error::Error> { self.displayed += 1; Ok(()) }
    pub fn spawn_async(&mut self, _a: &ast::AndOrList) -> u8 { self.asyncs += 1; 0 }
    pub fn trace(&mut self) { self.traces += 1; }
    pub fn pattern(&mut self, _w: &ast::Word) -> PatOracle { let i = self.pats; self.pats += 1; kani::assume(i < 4); PatOracle { m: self.pat[i] } }
    pub fn expand_word(&mut self, _w: &ast::Word) -> Result<Vec<String>, error::Error> { self.words += 1; Ok(vec![String::new()]) }
    pub fn set_loop_var(&mut self, _n: &str, _v: String) -> Result<(), error::Error> { self.loop_var_sets += 1; std::mem::forget(_v); Ok(()) }
    pub fn arith(&mut self, id: usize) -> Result<i64, error::Error> {
        let i = self.ariths; kani::assume(i < 6); self.ariths += 1; self.arith_seq[i] = self.idx(id); Ok(self.arith[i])
    }
    pub fn clone_shell(&mut self, s: &Sh) -> SubTok { self.clones += 1; SubTok { st: s.last_exit_status() } }
    pub fn error_result(&mut self, e: error::Error) -> ExecutionResult { std::mem::forget(e); ExecutionResult::new(self.codes[MAXC - 1]) }
}
pub struct PatOracle { m: bool }
impl PatOracle { pub fn exactly_matches(&self, _s: &str) -> Result<bool, error::Error> { Ok(self.m) } }
/// token for a cloned (sub)shell: the only thing a child may do with it here is set its `$?`
pub struct SubTok { pub st: u8 }
impl SubTok { pub fn set_last_exit_status(&mut self, v: u8) { self.st = v; } }
impl Kids {
    pub fn child_sub(&mut self, id: usize, sub: &mut SubTok, p: &ExecutionParameters) -> Result<ExecutionResult, error::Error> {
        let k = self.n; kani::assume(k < MAXC); self.n += 1; self.in_subshell_calls += 1;
        self.seq[k] = self.idx(id); self.flags[k] = p.suppress_errexit;
        if self.errs[k] { return Err(error::ErrorKind::NotArray.into()); }
        sub.set_last_exit_status(self.codes[k]);
        let mut r = ExecutionResult::new(self.codes[k]); r.next_control_flow = flow(self.flows[k]); Ok(r)
    }
}

// ---------------------------------------------------------------- transplanted bodies (the repository's statements)
fn t_andor(this: &ast::AndOrList, shell: &mut Sh, params: &ExecutionParameters, __o: &mut Kids) -> Result<ExecutionResult, error::Error> {
/*@LIFT andor*/
}
fn t_clist(this: &ast::CompoundList, shell: &mut Sh, params: &ExecutionParameters, __o: &mut Kids) -> Result<ExecutionResult, error::Error> {
/*@LIFT clist*/
}
fn t_program(this: &ast::Program, shell: &mut Sh, params: &ExecutionParameters, __o: &mut Kids) -> Result<ExecutionResult, error::Error> {
/*@LIFT program*/
}
fn t_if(this: &ast::IfClauseCommand, shell: &mut Sh, params: &ExecutionParameters, __o: &mut Kids) -> Result<ExecutionResult, error::Error> {
/*@LIFT ifc*/
}
fn t_while(this: &(WhileOrUntil, &ast::WhileOrUntilClauseCommand), shell: &mut Sh, params: &ExecutionParameters, __o: &mut Kids) -> Result<ExecutionResult, error::Error> {
/*@LIFT whileu*/
}
fn t_for(this: &ast::ForClauseCommand, shell: &mut Sh, params: &ExecutionParameters, __o: &mut Kids) -> Result<ExecutionResult, error::Error> {
/*@LIFT forc*/
}
fn t_afor(this: &ast::ArithmeticForClauseCommand, shell: &mut Sh, params: &ExecutionParameters, __o: &mut Kids) -> Result<ExecutionResult, error::Error> {
/*@LIFT aforc*/
}
fn t_arithcmd(this: &ast::ArithmeticCommand, shell: &mut Sh, params: &ExecutionParameters, __o: &mut Kids) -> Result<ExecutionResult, error::Error> {
/*@LIFT arithcmd*/
}
fn t_case(this: &ast::CaseClauseCommand, shell: &mut Sh, params: &ExecutionParameters, __o: &mut Kids) -> Result<ExecutionResult, error::Error> {
/*@LIFT casec*/
}

fn t_subshell(list: &ast::CompoundList, shell: &mut Sh, params: &ExecutionParameters, __o: &mut Kids) -> Result<ExecutionResult, error::Error> {
/*@LIFT subshell*/
}

// ---------------------------------------------------------------- helpers
fn pipe() -> ast::Pipeline { ast::Pipeline { timed: None, bang: false, seq: Vec::new() } }
fn clist() -> ast::CompoundList { ast::CompoundList(Vec::new()) }
fn dogroup() -> ast::DoGroupCommand { ast::DoGroupCommand { list: clist(), loc: Default::default() } }
fn st(r: &ExecutionResult) -> u8 { u8::from(r.exit_code) }
fn mk_shell(parent_flag: bool) -> (Sh, ExecutionParameters) {
    let shell: Sh = Shell::default();
    let mut params = ExecutionParameters::default();
    params.suppress_errexit = parent_flag;
    (shell, params)
}

// ================================================================ and-or lists:  a OP1 b OP2 c
//@proof {'props': ['C02', 'C03'], 'tier': 'quick', 'timeout': 900, 'bounds': '3 operands, OP1/OP2 symbolic in {&&,||}, child results arbitrary', 'render': 'andor', 'desc': 'a OP b OP c: which operands run, in order; result = last operand run; non-final operands are errexit-exempt, the final one inherits the parent flag', 'uses': ['andor']}
#[kani::proof]
#[kani::unwind(4)]
#[kani::stub(std::hash::RandomState::new, crate::vk_prelude::stub_random_state_new)]
#[kani::stub(std::time::SystemTime::now, crate::vk_prelude::stub_now)]
fn vk_c02_andor_3() {
    let parent_flag: bool = kani::any();
    let (mut shell, params) = mk_shell(parent_flag);
    let and1: bool = kani::any();
    let and2: bool = kani::any();
    let mut add = Vec::with_capacity(2);
    add.push(if and1 { ast::AndOr::And(pipe()) } else { ast::AndOr::Or(pipe()) });
    add.push(if and2 { ast::AndOr::And(pipe()) } else { ast::AndOr::Or(pipe()) });
    let l = ast::AndOrList { first: pipe(), additional: add };
    let id = |a: &ast::AndOr| match a { ast::AndOr::And(p) | ast::AndOr::Or(p) => p.vk_id() };
    let mut o = Kids::new([l.first.vk_id(), id(&l.additional[0]), id(&l.additional[1]), 1, 2]);
    let r = vk_ok(t_andor(&l, &mut shell, &params, &mut o));
    // ---- reference (POSIX 2.9.3): left-associative, equal precedence; a non-normal flow stops the list
    let a_ok = o.codes[0] == 0;
    let run_b = o.flows[0] == 0 && (a_ok == and1);
    // status/flow visible before OP2: that of b if it ran, else that of a
    let (s1, f1) = if run_b { (o.codes[1], o.flows[1]) } else { (o.codes[0], o.flows[0]) };
    let run_c = f1 == 0 && ((s1 == 0) == and2);
    let n_expected = 1 + run_b as usize + run_c as usize;
    kani::cover!(!run_b && run_c, "skips_b_runs_c");
    kani::cover!(run_b && o.flows[1] == 2, "b_breaks_two");
    assert!(o.n == n_expected, "C02.andor.number_of_operands_run");
    assert!(o.seq[0] == 0, "C02.andor.first_runs_first");
    if run_b { assert!(o.seq[1] == 1, "C02.andor.b_second"); }
    if run_c { assert!(o.seq[n_expected - 1] == 2, "C02.andor.c_last"); }
    let k_last = n_expected - 1;
    assert!(st(&r) == o.codes[k_last] && flow_tag(&r.next_control_flow) == o.flows[k_last], "C02.andor.result_is_last_run");
    assert!(shell.last_exit_status() == o.codes[k_last], "C02.andor.dollar_question");
    // ---- C03: exemption flags
    assert!(o.flags[0], "C03.andor.first_operand_exempt");
    if run_b { assert!(o.flags[1], "C03.andor.middle_operand_exempt"); }
    if run_c { assert!(o.flags[k_last] == parent_flag, "C03.andor.final_operand_inherits"); }
    std::mem::forget(l); std::mem::forget(shell); std::mem::forget(params);
}

//@proof {'props': ['C02', 'C03'], 'tier': 'quick', 'timeout': 900, 'bounds': '1 or 2 operands, OP symbolic', 'render': 'andor', 'desc': 'a / a OP b: single pipeline inherits the parent flag; in a OP b the final operand inherits, the first is exempt', 'uses': ['andor']}
#[kani::proof]
#[kani::unwind(4)]
#[kani::stub(std::hash::RandomState::new, crate::vk_prelude::stub_random_state_new)]
#[kani::stub(std::time::SystemTime::now, crate::vk_prelude::stub_now)]
fn vk_c02_andor_12() {
    let parent_flag: bool = kani::any();
    let (mut shell, params) = mk_shell(parent_flag);
    let two: bool = kani::any();
    let and1: bool = kani::any();
    let mut add = Vec::with_capacity(1);
    if two { add.push(if and1 { ast::AndOr::And(pipe()) } else { ast::AndOr::Or(pipe()) }); }
    let l = ast::AndOrList { first: pipe(), additional: add };
    let id1 = if two { match &l.additional[0] { ast::AndOr::And(p) | ast::AndOr::Or(p) => p.vk_id() } } else { 1 };
    let mut o = Kids::new([l.first.vk_id(), id1, 2, 3, 4]);
    let r = vk_ok(t_andor(&l, &mut shell, &params, &mut o));
    let run_b = two && o.flows[0] == 0 && ((o.codes[0] == 0) == and1);
    kani::cover!(!two && o.codes[0] == 3, "single_pipeline_fails");
    kani::cover!(run_b, "second_runs");
    assert!(o.n == 1 + run_b as usize, "C02.andor2.number_run");
    let k = o.n - 1;
    assert!(st(&r) == o.codes[k] && flow_tag(&r.next_control_flow) == o.flows[k], "C02.andor2.result_is_last_run");
    assert!(o.flags[0] == (two || parent_flag), "C03.andor2.first_flag");
    if run_b { assert!(o.seq[1] == 1 && o.flags[1] == parent_flag, "C03.andor2.final_inherits"); }
    std::mem::forget(l); std::mem::forget(shell); std::mem::forget(params);
}

// ================================================================ compound list  a ; b ; c
//@proof {'props': ['C02', 'C03'], 'tier': 'quick', 'timeout': 900, 'bounds': '3 sequential items, child results arbitrary', 'render': 'clist', 'desc': 'a; b; c: runs in order until a non-normal flow; result and $? are those of the last item run; every item inherits the parent errexit flag', 'uses': ['clist']}
#[kani::proof]
#[kani::unwind(5)]
#[kani::stub(std::hash::RandomState::new, crate::vk_prelude::stub_random_state_new)]
#[kani::stub(std::time::SystemTime::now, crate::vk_prelude::stub_now)]
fn vk_c02_compound_list_3() {
    let parent_flag: bool = kani::any();
    let (mut shell, params) = mk_shell(parent_flag);
    let mut items = Vec::with_capacity(3);
    for _ in 0..3 { items.push(ast::CompoundListItem(ast::AndOrList { first: pipe(), additional: Vec::new() }, ast::SeparatorOperator::Sequence)); }
    let l = ast::CompoundList(items);
    let mut o = Kids::new([l.0[0].0.vk_id(), l.0[1].0.vk_id(), l.0[2].0.vk_id(), 3, 4]);
    let r = vk_ok(t_clist(&l, &mut shell, &params, &mut o));
    let n_expected = if o.flows[0] != 0 { 1 } else if o.flows[1] != 0 { 2 } else { 3 };
    kani::cover!(n_expected == 2 && o.flows[1] == 5, "return_in_second");
    kani::cover!(n_expected == 3 && o.codes[2] == 7, "third_status");
    assert!(o.n == n_expected, "C02.list.stops_at_first_non_normal_flow");
    assert!(o.seq[0] == 0 && (o.n < 2 || o.seq[1] == 1) && (o.n < 3 || o.seq[2] == 2), "C02.list.in_order");
    let k = n_expected - 1;
    assert!(st(&r) == o.codes[k] && flow_tag(&r.next_control_flow) == o.flows[k], "C02.list.result_is_last_run");
    assert!(shell.last_exit_status() == o.codes[k], "C02.list.dollar_question");
    assert!(o.flags[0] == parent_flag && (o.n < 2 || o.flags[1] == parent_flag) && (o.n < 3 || o.flags[2] == parent_flag), "C03.list.items_inherit_flag");
    assert!(o.asyncs == 0, "C02.list.no_background");
    std::mem::forget(l); std::mem::forget(shell); std::mem::forget(params);
}

//@proof {'props': ['C02'], 'tier': 'quick', 'timeout': 900, 'bounds': 'a ; b & c : three items, the middle one in the background; child results arbitrary', 'desc': 'a; b & c: b is handed to the background launcher exactly once and not executed inline; the list goes on with c whatever b would return; $? seen by c is 0 (bash: the status of an asynchronous list is 0); the result is that of c', 'uses': ['clist']}
#[kani::proof]
#[kani::unwind(5)]
#[kani::stub(std::hash::RandomState::new, crate::vk_prelude::stub_random_state_new)]
#[kani::stub(std::time::SystemTime::now, crate::vk_prelude::stub_now)]
fn vk_c02_compound_list_async() {
    let (mut shell, params) = mk_shell(kani::any());
    let mut items = Vec::with_capacity(3);
    let seps = [ast::SeparatorOperator::Sequence, ast::SeparatorOperator::Async, ast::SeparatorOperator::Sequence];
    for i in 0..3 { items.push(ast::CompoundListItem(ast::AndOrList { first: pipe(), additional: Vec::new() }, seps[i].clone())); }
    let l = ast::CompoundList(items);
    let mut o = Kids::new([l.0[0].0.vk_id(), l.0[1].0.vk_id(), l.0[2].0.vk_id(), 3, 4]);
    let r = vk_ok(t_clist(&l, &mut shell, &params, &mut o));
    kani::cover!(o.flows[0] == 0 && o.codes[0] == 7, "first_item_fails_with_7_then_background_item");
    if o.flows[0] != 0 {
        assert!(o.n == 1 && o.asyncs == 0, "C02.list.stops_at_first_non_normal_flow");
    } else {
        assert!(o.asyncs == 1, "C17.list.background_item_launched_once");
        assert!(o.n == 2 && o.seq[0] == 0 && o.seq[1] == 2, "C02.list.background_item_not_run_inline_and_list_continues");
        assert!(o.st_in[1] == 0, "C02.list.dollar_question_after_background_item_is_zero");
        assert!(st(&r) == o.codes[1] && flow_tag(&r.next_control_flow) == o.flows[1], "C02.list.result_is_last_run");
    }
    std::mem::forget(l); std::mem::forget(shell); std::mem::forget(params);
}

// ================================================================ program (top level)
//@proof {'props': ['C02'], 'tier': 'quick', 'timeout': 900, 'bounds': '2 complete commands; the first may fail with an error', 'desc': 'top-level program: commands run in order; an error is displayed and turned into a status, later commands still run unless the flow is non-normal; $? tracks each', 'uses': ['program']}
#[kani::proof]
#[kani::unwind(4)]
#[kani::stub(std::hash::RandomState::new, crate::vk_prelude::stub_random_state_new)]
#[kani::stub(std::time::SystemTime::now, crate::vk_prelude::stub_now)]
fn vk_c02_program_2() {
    let (mut shell, params) = mk_shell(false);
    let mut cmds = Vec::with_capacity(2);
    cmds.push(clist()); cmds.push(clist());
    let p = ast::Program { complete_commands: cmds };
    let mut o = Kids::new([p.complete_commands[0].vk_id(), p.complete_commands[1].vk_id(), 2, 3, 4]);
    let r = vk_ok(t_program(&p, &mut shell, &params, &mut o));
    let n_expected = if o.flows[0] != 0 { 1 } else { 2 };
    kani::cover!(n_expected == 2 && o.codes[1] == 5, "second_status");
    kani::cover!(o.flows[0] == 6, "exit_in_first");
    assert!(o.n == n_expected, "C02.program.stops_on_non_normal_flow");
    let k = n_expected - 1;
    assert!(st(&r) == o.codes[k] && flow_tag(&r.next_control_flow) == o.flows[k], "C02.program.result_is_last_run");
    assert!(shell.last_exit_status() == o.codes[k], "C02.program.dollar_question");
    std::mem::forget(p); std::mem::forget(shell); std::mem::forget(params);
}

// ================================================================ if / elif / else
fn if_harness(n_elif: usize, has_else: bool) {
    let parent_flag: bool = kani::any();
    let (mut shell, params) = mk_shell(parent_flag);
    let mut elses = Vec::with_capacity(2);
    if n_elif >= 1 { elses.push(ast::ElseClause { condition: Some(clist()), body: clist() }); }
    if has_else { elses.push(ast::ElseClause { condition: None, body: clist() }); }
    let some_elses = n_elif >= 1 || has_else;
    let c = ast::IfClauseCommand { condition: clist(), then: clist(), elses: if some_elses { Some(elses) } else { std::mem::forget(elses); None }, loc: Default::default() };
    // child indices: 0 cond, 1 then, 2 elif-cond, 3 elif-body, 4 else-body
    let mut ids = [c.condition.vk_id(), c.then.vk_id(), 2, 3, 4];
    if let Some(es) = &c.elses {
        if n_elif >= 1 { ids[2] = es[0].condition.as_ref().unwrap().vk_id(); ids[3] = es[0].body.vk_id(); }
        if has_else { ids[4] = es[n_elif].body.vk_id(); }
    }
    let mut o = Kids::new(ids);
    shell.set_last_exit_status(42);
    let r = vk_ok(t_if(&c, &mut shell, &params, &mut o));
    // ---- reference
    assert!(o.n >= 1 && o.seq[0] == 0 && o.flags[0], "C03.if.condition_first_and_exempt");
    let (c0, f0) = (o.codes[0], o.flows[0]);
    kani::cover!(n_elif == 0 || (f0 == 0 && c0 != 0 && o.n == 3), "elif_taken");
    kani::cover!(f0 == 0 && c0 != 0 && (has_else || n_elif >= 1 || o.n == 1), "first_condition_false");
    kani::cover!(f0 == 2, "condition_breaks");
    if f0 != 0 {
        assert!(o.n == 1 && st(&r) == c0 && flow_tag(&r.next_control_flow) == f0, "C02.if.condition_flow_propagates");
    } else if c0 == 0 {
        assert!(o.n == 2 && o.seq[1] == 1, "C02.if.then_runs");
        assert!(o.flags[1] == parent_flag, "C03.if.then_inherits_flag");
        assert!(st(&r) == o.codes[1] && flow_tag(&r.next_control_flow) == o.flows[1], "C02.if.result_is_then");
    } else if n_elif >= 1 {
        assert!(o.n >= 2 && o.seq[1] == 2 && o.flags[1], "C03.if.elif_condition_exempt");
        let (c1, f1) = (o.codes[1], o.flows[1]);
        if f1 != 0 {
            assert!(o.n == 2 && st(&r) == c1 && flow_tag(&r.next_control_flow) == f1, "C02.if.elif_condition_flow_propagates");
        } else if c1 == 0 {
            assert!(o.n == 3 && o.seq[2] == 3 && o.flags[2] == parent_flag, "C02.if.elif_body_runs_inheriting");
            assert!(st(&r) == o.codes[2] && flow_tag(&r.next_control_flow) == o.flows[2], "C02.if.result_is_elif_body");
        } else if has_else {
            assert!(o.n == 3 && o.seq[2] == 4 && o.flags[2] == parent_flag, "C02.if.else_runs_inheriting");
            assert!(st(&r) == o.codes[2] && flow_tag(&r.next_control_flow) == o.flows[2], "C02.if.result_is_else");
        } else {
            assert!(o.n == 2 && st(&r) == 0 && r.is_normal_flow() && shell.last_exit_status() == 0, "C02.if.no_branch_is_zero");
        }
    } else if has_else {
        assert!(o.n == 2 && o.seq[1] == 4 && o.flags[1] == parent_flag, "C02.if.else_runs_inheriting");
        assert!(st(&r) == o.codes[1] && flow_tag(&r.next_control_flow) == o.flows[1], "C02.if.result_is_else");
    } else {
        // no branch taken: status 0 (POSIX 2.9.4.4), and $? says so
        assert!(o.n == 1 && st(&r) == 0 && r.is_normal_flow(), "C02.if.no_branch_is_zero");
        assert!(shell.last_exit_status() == 0, "C02.if.no_branch_dollar_question");
    }
    std::mem::forget(c); std::mem::forget(shell); std::mem::forget(params);
}

//@proof {'props': ['C02', 'C03'], 'tier': 'quick', 'timeout': 900, 'bounds': 'if/then (no else); child results arbitrary', 'render': 'ifc', 'desc': 'if c; then t; fi', 'uses': ['ifc']}
#[kani::proof]
#[kani::unwind(4)]
#[kani::stub(std::hash::RandomState::new, crate::vk_prelude::stub_random_state_new)]
#[kani::stub(std::time::SystemTime::now, crate::vk_prelude::stub_now)]
fn vk_c02_if_plain() { if_harness(0, false); }

//@proof {'props': ['C02', 'C03'], 'tier': 'quick', 'timeout': 900, 'bounds': 'if/then/elif/then/else; child results arbitrary', 'render': 'ifc', 'desc': 'if c; then t; elif c2; then t2; else e; fi: conditions exempt from errexit, bodies inherit; result of the branch taken; 0 when none', 'uses': ['ifc']}
#[kani::proof]
#[kani::unwind(4)]
#[kani::stub(std::hash::RandomState::new, crate::vk_prelude::stub_random_state_new)]
#[kani::stub(std::time::SystemTime::now, crate::vk_prelude::stub_now)]
fn vk_c02_if_elif_else() { if_harness(1, true); }

//@proof {'props': ['C02', 'C03'], 'tier': 'thorough', 'timeout': 900, 'bounds': 'if/then/elif/then (no else)', 'render': 'ifc', 'desc': 'if c; then t; elif c2; then t2; fi', 'uses': ['ifc']}
#[kani::proof]
#[kani::unwind(4)]
#[kani::stub(std::hash::RandomState::new, crate::vk_prelude::stub_random_state_new)]
#[kani::stub(std::time::SystemTime::now, crate::vk_prelude::stub_now)]
fn vk_c02_if_elif() { if_harness(1, false); }

//@proof {'props': ['C02', 'C03'], 'tier': 'thorough', 'timeout': 900, 'bounds': 'if/then/else', 'render': 'ifc', 'desc': 'if c; then t; else e; fi', 'uses': ['ifc']}
#[kani::proof]
#[kani::unwind(4)]
#[kani::stub(std::hash::RandomState::new, crate::vk_prelude::stub_random_state_new)]
#[kani::stub(std::time::SystemTime::now, crate::vk_prelude::stub_now)]
fn vk_c02_if_else() { if_harness(0, true); }

// ================================================================ while / until
/// reference model of one loop: consumes the oracle's outcome arrays in call order.
/// Returns (calls expected, status, flow tag, executions of the body)
fn loop_reference(o: &Kids, is_while: bool) -> (usize, u8, u8, usize) {
    let mut k = 0usize;          // next oracle call
    let mut status = 0u8;
    let mut bodies = 0usize;
    // at most 3 condition evaluations / MAXC calls are explored (assumed by the oracle)
    let mut iter = 0;
    while iter < 4 {
        iter += 1;
        if k >= MAXC { break; }
        let (cc, cf) = (o.codes[k], o.flows[k]); k += 1;
        if cf != 0 {
            // break/continue in the condition: this loop consumes one level
            let f = match cf { 1 | 3 => 0, 2 => 1, 4 => 3, x => x };
            return (k, cc, f, bodies);
        }
        if (cc == 0) != is_while { return (k, status, 0, bodies); }
        if k >= MAXC { break; }
        let (bc, bf) = (o.codes[k], o.flows[k]); k += 1;
        bodies += 1;
        status = bc;
        match bf {
            0 | 3 => {}                               // normal or `continue`: next iteration
            1 => return (k, bc, 0, bodies),           // break
            2 => return (k, bc, 1, bodies),           // break 2 -> break 1 for the enclosing loop
            4 => return (k, bc, 3, bodies),           // continue 2 -> continue 1 for the enclosing loop
            f => return (k, bc, f, bodies),           // return / exit
        }
    }
    (usize::MAX, 0, 0, bodies)
}

//@proof {'props': ['C02', 'C03'], 'tier': 'quick', 'timeout': 1200, 'bounds': '<= 6 child evaluations (3 iterations), while/until symbolic, child results arbitrary', 'render': 'whileu', 'desc': 'while/until: condition exempt from errexit, body inherits; loop status = last body status or 0; break n / continue n consume one level; return/exit propagate; a non-normal flow in the condition ends the loop', 'uses': ['whileu']}
#[kani::proof]
#[kani::unwind(8)]
#[kani::stub(std::hash::RandomState::new, crate::vk_prelude::stub_random_state_new)]
#[kani::stub(std::time::SystemTime::now, crate::vk_prelude::stub_now)]
fn vk_c02_while_until() {
    let parent_flag: bool = kani::any();
    let (mut shell, params) = mk_shell(parent_flag);
    let is_while: bool = kani::any();
    let cmd = ast::WhileOrUntilClauseCommand(clist(), dogroup(), Default::default());
    let this = (if is_while { WhileOrUntil::While } else { WhileOrUntil::Until }, &cmd);
    let mut o = Kids::new([cmd.0.vk_id(), cmd.1.list.vk_id(), 2, 3, 4]);
    let r = vk_ok(t_while(&this, &mut shell, &params, &mut o));
    let (n_exp, s_exp, f_exp, bodies) = loop_reference(&o, is_while);
    kani::assume(n_exp != usize::MAX);
    kani::cover!(bodies == 2 && f_exp == 0, "two_iterations_then_condition_ends");
    kani::cover!(bodies == 1 && o.flows[1] == 2, "break_two_in_body");
    kani::cover!(bodies == 1 && o.flows[1] == 3 && o.n >= 3, "continue_reevaluates_condition");
    assert!(o.n == n_exp, "C02.while.children_run");
    assert!(st(&r) == s_exp, "C02.while.status");
    assert!(flow_tag(&r.next_control_flow) == f_exp, "C02.while.flow_out");
    assert!(shell.last_exit_status() == s_exp, "C02.while.dollar_question");
    // alternation cond, body, cond, body ... and flags
    let mut i = 0;
    while i < MAXC {
        if i < o.n {
            if i % 2 == 0 { assert!(o.seq[i] == 0 && o.flags[i], "C03.while.condition_exempt"); }
            else { assert!(o.seq[i] == 1 && o.flags[i] == parent_flag, "C03.while.body_inherits"); }
        }
        i += 1;
    }
    std::mem::forget(cmd); std::mem::forget(shell); std::mem::forget(params);
}

// ================================================================ for
//@proof {'props': ['C02', 'C03'], 'tier': 'quick', 'timeout': 1200, 'bounds': 'for over 3 words (each expanding to one field), body results arbitrary', 'render': 'forc', 'desc': 'for: body once per value in order until break/return/exit/continue n>1; loop variable set before each body; status = last body status (0 if none)', 'uses': ['forc']}
#[kani::proof]
#[kani::unwind(5)]
#[kani::stub(std::hash::RandomState::new, crate::vk_prelude::stub_random_state_new)]
#[kani::stub(std::time::SystemTime::now, crate::vk_prelude::stub_now)]
fn vk_c02_for_3() {
    let parent_flag: bool = kani::any();
    let (mut shell, params) = mk_shell(parent_flag);
    let mut words = Vec::with_capacity(3);
    words.push(ast::Word::new("")); words.push(ast::Word::new("")); words.push(ast::Word::new(""));
    let cmd = ast::ForClauseCommand { variable_name: String::new(), values: Some(words), body: dogroup(), loc: Default::default() };
    let mut o = Kids::new([cmd.body.list.vk_id(), 1, 2, 3, 4]);
    let r = vk_ok(t_for(&cmd, &mut shell, &params, &mut o));
    // reference
    let stop = |f: u8| f != 0 && f != 3;
    let n_exp = if stop(o.flows[0]) { 1 } else if stop(o.flows[1]) { 2 } else { 3 };
    let k = n_exp - 1;
    let f_exp = match o.flows[k] { 0 | 1 | 3 => 0, 2 => 1, 4 => 3, x => x };
    kani::cover!(n_exp == 2 && o.flows[1] == 4, "continue_two_in_second");
    kani::cover!(n_exp == 3 && o.flows[0] == 3, "continue_then_more");
    assert!(o.words == 3, "C02.for.expands_every_word_once");
    assert!(o.n == n_exp && o.loop_var_sets as usize == n_exp, "C02.for.iterations");
    assert!(st(&r) == o.codes[k] && flow_tag(&r.next_control_flow) == f_exp, "C02.for.result");
    assert!(shell.last_exit_status() == o.codes[k], "C02.for.dollar_question");
    assert!(o.flags[0] == parent_flag && (o.n < 2 || o.flags[1] == parent_flag) && (o.n < 3 || o.flags[2] == parent_flag), "C03.for.body_inherits");
    std::mem::forget(cmd); std::mem::forget(shell); std::mem::forget(params);
}

// ================================================================ arithmetic for
//@proof {'props': ['C02', 'C03'], 'tier': 'quick', 'timeout': 1200, 'bounds': 'for ((i;c;u)) with <= 3 condition evaluations, body results arbitrary, condition values arbitrary i64', 'desc': 'arithmetic for: init once; condition before each body; update after each non-breaking body (also after continue); status = last body status', 'uses': ['aforc']}
#[kani::proof]
#[kani::unwind(5)]
#[kani::stub(std::hash::RandomState::new, crate::vk_prelude::stub_random_state_new)]
#[kani::stub(std::time::SystemTime::now, crate::vk_prelude::stub_now)]
fn vk_c02_arith_for() {
    let parent_flag: bool = kani::any();
    let (mut shell, params) = mk_shell(parent_flag);
    let ue = |s: &str| ast::UnexpandedArithmeticExpr { value: String::from(s) };
    let cmd = ast::ArithmeticForClauseCommand { initializer: Some(ue("i")), condition: Some(ue("c")), updater: Some(ue("u")), body: dogroup(), loc: Default::default() };
    // arithmetic ids: 1 = init, 2 = cond, 3 = update ; child id 0 = body
    let mut o = Kids::new([cmd.body.list.vk_id(), cmd.initializer.as_ref().unwrap().vk_id(), cmd.condition.as_ref().unwrap().vk_id(), cmd.updater.as_ref().unwrap().vk_id(), 4]);
    let r = vk_ok(t_afor(&cmd, &mut shell, &params, &mut o));
    // reference: arith call sequence is init, cond, [body, update, cond]*
    assert!(o.ariths >= 2 && o.arith_seq[0] == 1 && o.arith_seq[1] == 2, "C02.afor.init_then_condition");
    let c0 = o.arith[1];
    kani::cover!(c0 != 0 && o.n == 2, "two_bodies");
    kani::cover!(c0 != 0 && o.flows[0] == 3 && o.ariths >= 4, "continue_still_updates");
    if c0 == 0 {
        assert!(o.n == 0 && st(&r) == 0 && r.is_normal_flow(), "C02.afor.false_condition_skips");
    } else {
        assert!(o.n >= 1 && o.flags[0] == parent_flag, "C03.afor.body_inherits");
        let f0 = o.flows[0];
        if f0 == 0 || f0 == 3 {
            assert!(o.ariths >= 4 && o.arith_seq[2] == 3 && o.arith_seq[3] == 2, "C02.afor.update_then_condition");
            if o.arith[3] == 0 { assert!(o.n == 1 && st(&r) == o.codes[0] && r.is_normal_flow(), "C02.afor.ends_after_one"); }
        } else {
            assert!(o.n == 1 && o.ariths == 2, "C02.afor.break_skips_update");
            let f_exp = match f0 { 1 => 0, 2 => 1, 4 => 3, x => x };
            assert!(st(&r) == o.codes[0] && flow_tag(&r.next_control_flow) == f_exp, "C02.afor.flow_out");
        }
    }
    if o.n >= 1 { assert!(shell.last_exit_status() == o.codes[o.n - 1], "C02.afor.dollar_question"); }
    std::mem::forget(cmd); std::mem::forget(shell); std::mem::forget(params);
}

// ================================================================ case
fn post(t: u8) -> ast::CaseItemPostAction {
    match t { 0 => ast::CaseItemPostAction::ExitCase, 1 => ast::CaseItemPostAction::UnconditionallyExecuteNextCaseItem, _ => ast::CaseItemPostAction::ContinueEvaluatingCases }
}
//@proof {'props': ['C02', 'C03'], 'tier': 'quick', 'timeout': 1200, 'bounds': '3 case items, one pattern each, terminators ;; ;& ;;& symbolic, match outcomes symbolic', 'render': 'casec', 'desc': 'case: first matching item runs; ;& falls into the next body without testing; ;;& keeps testing; status = last body run (0 if none); non-normal flow stops', 'uses': ['casec']}
#[kani::proof]
#[kani::unwind(5)]
#[kani::stub(std::hash::RandomState::new, crate::vk_prelude::stub_random_state_new)]
#[kani::stub(std::time::SystemTime::now, crate::vk_prelude::stub_now)]
fn vk_c02_case_3() {
    let parent_flag: bool = kani::any();
    let (mut shell, params) = mk_shell(parent_flag);
    let t: [u8; 3] = [any_below(3), any_below(3), any_below(3)];
    let has_body: [bool; 3] = [kani::any(), kani::any(), kani::any()];
    let mut cases = Vec::with_capacity(3);
    for i in 0..3 {
        let mut pats = Vec::with_capacity(1); pats.push(ast::Word::new(""));
        cases.push(ast::CaseItem { patterns: pats, cmd: if has_body[i] { Some(clist()) } else { None }, post_action: post(t[i]), loc: None });
    }
    let cmd = ast::CaseClauseCommand { value: ast::Word::new(""), cases, loc: Default::default() };
    let idof = |i: usize| -> usize { match &cmd.cases[i].cmd { Some(c) => c.vk_id(), None => 100 + i } };
    let mut o = Kids::new([idof(0), idof(1), idof(2), 3, 4]);
    shell.set_last_exit_status(42);
    let r = vk_ok(t_case(&cmd, &mut shell, &params, &mut o));
    // ---- reference (bash manual, "case"): walk the items
    let mut ran = [false; 3];
    let mut k = 0usize;       // bodies run so far == oracle call index
    let mut p = 0usize;       // patterns tested so far
    let mut force = false;
    let mut done = false;
    let mut res_status = 0u8; // "the exit status is zero if no pattern matches; otherwise that of the last command executed in the list" - an empty list yields 0
    let mut res_flow = 0u8;
    let mut i = 0;
    while i < 3 {
        if !done {
            let take = if force { force = false; true } else { let m = o.pat[p]; p += 1; m };
            if take {
                if has_body[i] { ran[i] = true; res_status = o.codes[k]; res_flow = o.flows[k]; k += 1; } else { res_status = 0; res_flow = 0; }
                if res_flow != 0 { done = true; }
                else if t[i] == 0 { done = true; }
                else if t[i] == 1 { force = true; }
            }
        }
        i += 1;
    }
    kani::cover!(ran[0] && ran[1] && !ran[2] && t[0] == 1, "fallthrough_into_second");
    kani::cover!(!ran[0] && ran[1] && ran[2] && t[1] == 2, "continue_testing_matches_third");
    kani::cover!(k == 0, "no_body_ran");
    kani::cover!(ran[0] && o.codes[0] == 3 && t[0] == 1 && !has_body[1] && t[1] == 0, "failing_arm_falls_into_empty_arm");
    assert!(o.n == k, "C02.case.bodies_run");
    assert!(o.pats == p, "C02.case.patterns_tested");
    let mut j = 0usize; let mut idx = 0;
    while idx < 3 { if ran[idx] { assert!(o.seq[j] == idx as u8 && o.flags[j] == parent_flag, "C02.case.which_bodies_in_order_inheriting"); j += 1; } idx += 1; }
    assert!(st(&r) == res_status && flow_tag(&r.next_control_flow) == res_flow, "C02.case.result_is_last_arm_run");
    assert!(shell.last_exit_status() == res_status, "C02.case.dollar_question");
    std::mem::forget(cmd); std::mem::forget(shell); std::mem::forget(params);
}

//@proof {'props': ['C02'], 'tier': 'thorough', 'timeout': 1800, 'bounds': '2 case items with 2 patterns each (a|b), terminators symbolic, match outcomes symbolic', 'desc': 'case with alternatives: the patterns of an item are tested left to right and testing stops at the first match (later alternatives are not even expanded); an item runs iff one of its patterns matched (or it was fallen into)', 'uses': ['casec']}
#[kani::proof]
#[kani::unwind(5)]
#[kani::stub(std::hash::RandomState::new, crate::vk_prelude::stub_random_state_new)]
#[kani::stub(std::time::SystemTime::now, crate::vk_prelude::stub_now)]
fn vk_c02_case_two_patterns() {
    let (mut shell, params) = mk_shell(kani::any());
    let t: [u8; 2] = [any_below(3), any_below(3)];
    let mut cases = Vec::with_capacity(2);
    for i in 0..2 {
        let mut pats = Vec::with_capacity(2); pats.push(ast::Word::new("")); pats.push(ast::Word::new(""));
        cases.push(ast::CaseItem { patterns: pats, cmd: Some(clist()), post_action: post(t[i]), loc: None });
    }
    let cmd = ast::CaseClauseCommand { value: ast::Word::new(""), cases, loc: Default::default() };
    let idof = |i: usize| -> usize { match &cmd.cases[i].cmd { Some(c) => c.vk_id(), None => 100 + i } };
    let mut o = Kids::new([idof(0), idof(1), 2, 3, 4]);
    let r = vk_ok(t_case(&cmd, &mut shell, &params, &mut o));
    // reference: item i is taken iff forced or any of its (up to 2) patterns matches; pattern oracle answers are consumed in order
    let mut p = 0usize; let mut k = 0usize; let mut force = false; let mut done = false; let mut ran = [false; 2];
    let mut i = 0;
    while i < 2 {
        if !done {
            let take = if force { force = false; true } else { let m0 = o.pat[p]; p += 1; if m0 { true } else { let m1 = o.pat[p]; p += 1; m1 } };
            if take { ran[i] = true; let f = o.flows[k]; k += 1; if f != 0 || t[i] == 0 { done = true; } else if t[i] == 1 { force = true; } }
        }
        i += 1;
    }
    kani::cover!(o.pat[0] && ran[0] && p == 1, "first_alternative_matches_second_not_tested");
    kani::cover!(!o.pat[0] && o.pat[1] && ran[0], "second_alternative_matches");
    assert!(o.pats == p, "C02.case.alternatives_tested_left_to_right_until_first_match");
    assert!(o.n == k, "C02.case.bodies_run");
    if k >= 1 { assert!(st(&r) == o.codes[k - 1] && flow_tag(&r.next_control_flow) == o.flows[k - 1], "C02.case.result_is_last_arm_run"); } else { assert!(st(&r) == 0 && r.is_normal_flow(), "C02.case.no_match_is_zero"); }
    std::mem::forget(cmd); std::mem::forget(shell); std::mem::forget(params);
}

// ================================================================ subshell
//@proof {'props': ['C02', 'C03'], 'tier': 'quick', 'timeout': 900, 'bounds': 'subshell body result arbitrary (status, flow) or an error', 'render': 'subshell', 'desc': '( list ): runs in a clone; whatever flow the body requests (break, return, exit) the parent continues normally with the body status; body inherits the errexit flag; an error inside is reported and becomes a status', 'uses': ['subshell']}
#[kani::proof]
#[kani::unwind(4)]
#[kani::stub(std::hash::RandomState::new, crate::vk_prelude::stub_random_state_new)]
#[kani::stub(std::time::SystemTime::now, crate::vk_prelude::stub_now)]
fn vk_c02_subshell() {
    let parent_flag: bool = kani::any();
    let (mut shell, params) = mk_shell(parent_flag);
    let body = clist();
    let mut o = Kids::new([body.vk_id(), 1, 2, 3, 4]);
    o.errs[0] = kani::any();
    shell.set_last_exit_status(42);
    let r = vk_ok(t_subshell(&body, &mut shell, &params, &mut o));
    kani::cover!(!o.errs[0] && o.flows[0] == 6 && o.codes[0] == 3, "exit_3_inside_subshell");
    kani::cover!(o.errs[0], "error_inside_subshell");
    assert!(o.clones == 1 && o.n == 1 && o.in_subshell_calls == 1, "C02.subshell.body_runs_once_in_clone");
    assert!(o.flags[0] == parent_flag, "C03.subshell.body_inherits_flag");
    assert!(r.is_normal_flow(), "C02.subshell.flow_is_contained");
    if o.errs[0] { assert!(o.displayed == 1 && st(&r) == o.codes[MAXC - 1], "C02.subshell.error_becomes_status"); }
    else { assert!(st(&r) == o.codes[0], "C02.subshell.status_is_body_status"); }
    assert!(shell.last_exit_status() == 42, "C02.subshell.parent_dollar_question_untouched_by_clone");
    std::mem::forget(body); std::mem::forget(shell); std::mem::forget(params);
}

// ================================================================ (( expr ))
//@proof {'props': ['C02', 'C07'], 'tier': 'quick', 'timeout': 900, 'bounds': 'value of the expression any i64', 'desc': '(( expr )): status 0 iff the value is non-zero, 1 otherwise; normal flow; $? agrees; the expression is evaluated exactly once', 'uses': ['arithcmd']}
#[kani::proof]
#[kani::unwind(4)]
#[kani::stub(std::hash::RandomState::new, crate::vk_prelude::stub_random_state_new)]
#[kani::stub(std::time::SystemTime::now, crate::vk_prelude::stub_now)]
fn vk_c02_arithmetic_command_status() {
    let (mut shell, params) = mk_shell(kani::any());
    let cmd = ast::ArithmeticCommand { expr: ast::UnexpandedArithmeticExpr { value: String::new() }, loc: Default::default() };
    let mut o = Kids::new([0, cmd.expr.vk_id(), 2, 3, 4]);
    shell.set_last_exit_status(42);
    let r = vk_ok(t_arithcmd(&cmd, &mut shell, &params, &mut o));
    let v = o.arith[0];
    kani::cover!(v == i64::MIN, "value_min");
    kani::cover!(v == 0, "value_zero");
    assert!(o.ariths == 1, "C07.arithcmd.evaluated_once");
    assert!(st(&r) == if v != 0 { 0 } else { 1 } && r.is_normal_flow(), "C02.arithcmd.status_zero_iff_value_nonzero");
    assert!(shell.last_exit_status() == st(&r), "C02.arithcmd.dollar_question");
    std::mem::forget(cmd); std::mem::forget(shell); std::mem::forget(params);
}

// ================================================================ loop-level arithmetic
//@proof {'props': ['C02', 'C01'], 'tier': 'quick', 'timeout': 300, 'bounds': 'levels any usize', 'desc': 'try_decrement_loop_levels: break/continue k>0 -> k-1, k=0 -> normal flow, others unchanged; no underflow', 'uses': []}
#[kani::proof]
#[kani::unwind(2)]
fn vk_c02_decrement_levels() {
    let levels: usize = kani::any();
    let which: u8 = any_below(5);
    let cf = match which { 0 => CF::Normal, 1 => CF::BreakLoop { levels }, 2 => CF::ContinueLoop { levels }, 3 => CF::ReturnFromFunctionOrScript, _ => CF::ExitShell };
    let d = cf.try_decrement_loop_levels();
    kani::cover!(which == 1 && levels == 0, "break_last_level");
    match (which, d) {
        (0, CF::Normal) | (3, CF::ReturnFromFunctionOrScript) | (4, CF::ExitShell) => {}
        (1, CF::Normal) | (2, CF::Normal) => assert!(levels == 0, "C02.levels.zero_becomes_normal"),
        (1, CF::BreakLoop { levels: l }) => assert!(levels > 0 && l == levels - 1, "C02.levels.break_decrements"),
        (2, CF::ContinueLoop { levels: l }) => assert!(levels > 0 && l == levels - 1, "C02.levels.continue_decrements"),
        _ => assert!(false, "C02.levels.kind_preserved"),
    }
}

//@proof {'props': ['C02'], 'tier': 'quick', 'timeout': 300, 'bounds': 'any u8', 'desc': 'exit status <-> ExecutionExitCode round trip is the identity on 0..=255', 'uses': []}
#[kani::proof]
#[kani::unwind(2)]
fn vk_c02_exit_code_roundtrip() {
    let c: u8 = kani::any();
    let e = ExecutionExitCode::from(c);
    kani::cover!(c == 99, "unimplemented_code");
    assert!(u8::from(e) == c, "C02.exitcode.roundtrip");
    assert!(e.is_success() == (c == 0), "C02.exitcode.success_iff_zero");
}
