/*@meta
{
 'package': 'brush-core',
 'host': 'brush-core/src/interp.rs',
 'stubs': ['tracing -> no-op stub crate', '`Vec` -> vk_prelude::ArrVec; expanded fields are tokens with the String methods the text uses',
           'transplant of `ExecuteInPipeline for ast::SimpleCommand` (the loop over prefix / name / suffix items and the command-or-assignments decision) on duck-typed items, shell and parameters',
           'setup_redirect / setup_process_substitution / expand_assignment / full_expand_and_split_word / execute_command / apply_assignment -> oracles recording the order in which they are called; a redirect setup may fail (symbolic)',
           'crate::error::Error -> small stand-in inside the harness module'],
 'assumptions': ['shapes: `A=1 <r0 cmd <r1 arg` (with command) and `A=1 <r0 B=2` (no command); every word expands to exactly one field'],
 'out_of_claim': ['what a redirect opens (decided for the open-mode table under C10)', 'process substitution', 'alias lookup and the text of the alias (the number of words it splits into is symbolic)', 'field splitting of the words'],
}
@*/
/*@recipes
{
 'sc_items': {'file': 'brush-core/src/interp.rs', 'start': r'ExecuteInPipeline<SE> for ast::SimpleCommand \{\s*async fn execute_in_pipeline\(', 'mode': 'fn_body', 'self_to': 'this', 'deasync': True,
        'rewrites': [[r'setup_redirect\(&mut context\.shell, &mut params, redirect\)', r'__o.redirect(*redirect)', 1],
                     [r'(?s)setup_process_substitution\(\s*&context\.shell,\s*&params,\s*kind,\s*subshell_command,\s*\)', r'__o.procsub()', 1],
                     [r'(?s)CommandArg::String\(std::format!\(\s*"/dev/fd/\{installed_fd_num\}"\s*\)\)', r'CommandArg::String(__o.fd_path(installed_fd_num))', 1],
                     [r'expand_assignment\(&mut context\.shell, &params, assignment\)', r'__o.expand_assignment(*assignment)', 1],
                     [r'(?s)expansion::full_expand_and_split_word\(\s*&mut context\.shell,\s*&params,\s*(\w+),?\s*\)', r'__o.expand_word(*\1)', 2],
                     [r'execute_command\(context, params, cmd_name, &assignments, &args\)', r'__o.exec(context, params, cmd_name, &assignments, &args)', 1],
                     [r'err\.into_result\(parent_shell\)', r'__o.err_result(err)', 1],
                     [r'(?s)apply_assignment\(\s*assignment,\s*&mut context\.shell,\s*&params,\s*false,\s*None,\s*EnvironmentScope::Global,\s*\)', r'__o.apply_global(*assignment)', 1]]},
}
@*/
use super::{EnvironmentScope, ExecutionResult, ExecutionSpawnResult};
use std::io::Write;
use crate::vk_prelude::ArrVec as Vec;
macro_rules! vec { () => { Vec::new() }; }

/// an expanded field: a token with the slice of the String API the lifted text uses
#[derive(Clone, Copy)]
pub struct Fld(pub u8);
impl Fld { pub fn as_str(&self) -> &str { match self.0 { 1 => "w1", 2 => "w2", 70 => "a0", 71 => "a1", _ => "" } } pub fn to_owned(&self) -> Fld { *self } }
/// an alias value: splits into `n` (0..2) words
pub struct AliasTok { pub n: usize }
static ALIAS_WORDS: [Fld; 2] = [Fld(70), Fld(71)];
pub struct AliasWords { i: usize, n: usize }
impl Iterator for AliasWords { type Item = &'static Fld; fn next(&mut self) -> Option<&'static Fld> { let i = self.i; self.i += 1; if i >= 2 { None } else if i >= self.n { None } else { Some(&ALIAS_WORDS[i]) } } }
impl AliasTok { pub fn split_ascii_whitespace(&self) -> AliasWords { AliasWords { i: 0, n: self.n } } }

pub mod error { pub struct Error(pub u8); impl std::fmt::Display for Error { fn fmt(&self, _f: &mut std::fmt::Formatter<'_>) -> std::fmt::Result { Ok(()) } } }

// ---------------------------------------------------------------- light items
#[derive(Clone, Copy)]
pub enum CommandPrefixOrSuffixItem { IoRedirect(u8), Word(u8), AssignmentWord(u8, u8), ProcessSubstitution(u8, u8) }
pub struct ItemList(pub std::vec::Vec<CommandPrefixOrSuffixItem>);
pub struct SC { pub prefix: Option<ItemList>, pub word_or_name: Option<u8>, pub suffix: Option<ItemList> }
pub enum CommandArg { String(Fld), Assignment(u8) }

pub struct BReg { pub disabled: bool, pub declaration_builtin: bool }
pub struct BTable { pub decl: Option<BReg> }
impl BTable { pub fn get(&self, _n: &str) -> Option<&BReg> { self.decl.as_ref() } }
pub struct ATable { pub alias: Option<AliasTok> }
/// the one alias there may be is named by the command word (field 1)
impl ATable { pub fn get(&self, n: &str) -> Option<&AliasTok> { if n.len() == 2 && n.as_bytes()[1] == b'1' && n.as_bytes()[0] == b'w' { self.alias.as_ref() } else { None } } }
pub struct DSh { pub b: BTable, pub a: ATable, pub status: u8, pub status_changes: u32, pub last_arg_cleared: u8, pub displayed: u8 }
impl DSh {
    pub fn last_exit_status_change_count(&self) -> u32 { self.status_changes }
    pub fn aliases(&self) -> &ATable { &self.a }
    pub fn builtins(&self) -> &BTable { &self.b }
    pub fn update_last_arg_variable(&mut self, a: Option<String>) { if a.is_none() { self.last_arg_cleared += 1; } std::mem::forget(a); }
    pub fn set_last_exit_status(&mut self, v: u8) { self.status = v; self.status_changes += 1; }
    pub fn last_exit_status(&self) -> u8 { self.status }
    pub fn display_error<Wr>(&mut self, _w: &mut Wr, _e: &error::Error) -> Result<(), error::Error> { self.displayed += 1; Ok(()) }
}
pub struct Sink { pub lines: u8 }
impl Write for Sink { fn write(&mut self, b: &[u8]) -> std::io::Result<usize> { Ok(b.len()) } fn flush(&mut self) -> std::io::Result<()> { Ok(()) } fn write_fmt(&mut self, _a: std::fmt::Arguments<'_>) -> std::io::Result<()> { self.lines += 1; Ok(()) } }
static mut STDERR_LINES: u8 = 0;
pub struct OpenFilesTok;
impl OpenFilesTok { pub fn set_fd(&mut self, _fd: i32, _f: u8) {} }
pub struct Params { pub open_files: OpenFilesTok }
impl Params { pub fn stderr(&self, _s: &DSh) -> StderrTok { StderrTok } }
pub struct StderrTok;
impl Write for StderrTok { fn write(&mut self, b: &[u8]) -> std::io::Result<usize> { Ok(b.len()) } fn flush(&mut self) -> std::io::Result<()> { Ok(()) } fn write_fmt(&mut self, _a: std::fmt::Arguments<'_>) -> std::io::Result<()> { unsafe { STDERR_LINES += 1; } Ok(()) } }
impl From<std::io::Error> for error::Error { fn from(e: std::io::Error) -> Self { std::mem::forget(e); error::Error(9) } }
pub mod commands {
    pub enum ShellForCommand<'a> { ParentShell(&'a mut super::DSh), OwnedShell { target: Box<super::DSh>, parent: &'a mut super::DSh } }
    impl std::ops::Deref for ShellForCommand<'_> { type Target = super::DSh; fn deref(&self) -> &super::DSh { match self { ShellForCommand::ParentShell(s) => s, ShellForCommand::OwnedShell { target, .. } => target } } }
    impl std::ops::DerefMut for ShellForCommand<'_> { fn deref_mut(&mut self) -> &mut super::DSh { match self { ShellForCommand::ParentShell(s) => s, ShellForCommand::OwnedShell { target, .. } => target } } }
}
pub struct PipelineExecutionContext<'a> { pub shell: commands::ShellForCommand<'a>, pub process_group_id: Option<i32> }

/// events: (kind, id)  kinds: 1 redirect, 2 word expansion, 3 assignment expansion (argument), 4 exec, 5 global assignment
pub struct IOracle { pub ev: [(u8, u8); 8], pub n: usize, pub redirect_fail: u8, pub exec_fails: bool, pub exec_assignments: usize, pub exec_args: usize, pub code: u8, pub expansion_sets_status: bool }
impl IOracle {
    fn log(&mut self, k: u8, id: u8) { let i = self.n; kani::assume(i < 8); self.ev[i] = (k, id); self.n += 1; }
    fn redirect(&mut self, id: u8) -> Result<(), error::Error> { self.log(1, id); if self.redirect_fail == id + 1 { Err(error::Error(1)) } else { Ok(()) } }
    fn procsub(&mut self) -> Result<(i32, u8), error::Error> { Ok((63, 0)) }
    fn fd_path(&mut self, _fd: i32) -> Fld { Fld(99) }
    fn expand_assignment(&mut self, id: u8) -> Result<u8, error::Error> { self.log(3, id); Ok(id) }
    fn expand_word(&mut self, id: u8) -> Result<Vec<Fld>, error::Error> { self.log(2, id); let mut v = Vec::with_capacity(1); v.push(Fld(id)); Ok(v) }
    fn exec(&mut self, ctx: PipelineExecutionContext<'_>, _p: Params, name: &Fld, assignments: &Vec<&u8>, args: &Vec<CommandArg>) -> Result<ExecutionSpawnResult, error::Error> {
        self.log(4, 0); self.exec_assignments = assignments.len(); self.exec_args = args.len();
        let _ = name; std::mem::forget(ctx);
        if self.exec_fails { Err(error::Error(2)) } else { Ok(ExecutionSpawnResult::Completed(ExecutionResult::new(self.code))) }
    }
    fn err_result(&mut self, e: error::Error) -> ExecutionResult { std::mem::forget(e); ExecutionResult::new(self.code) }
    fn apply_global(&mut self, id: u8) -> Result<(), error::Error> { self.log(5, id); Ok(()) }
}

fn t_sc_items(this: &SC, mut context: PipelineExecutionContext<'_>, mut params: Params, __o: &mut IOracle) -> Result<ExecutionSpawnResult, error::Error> {
/*@LIFT sc_items*/
}

fn mk_sh(decl: bool) -> DSh { DSh { b: BTable { decl: if decl { Some(BReg { disabled: false, declaration_builtin: true }) } else { None } }, a: ATable { alias: None }, status: 42, status_changes: 0, last_arg_cleared: 0, displayed: 0 } }

//@proof {'props': ['C10', 'C09', 'C02'], 'tier': 'quick', 'timeout': 900, 'uses': ['sc_items'], 'bounds': 'the command `A=1 <r0 cmd <r1 B=2 arg`; one of the two redirections may fail (symbolic); cmd is a declaration builtin or not (symbolic); the command itself may fail with an error', 'desc': 'a simple command: prefix, name and suffix items are processed strictly left to right (redirections and word expansions interleaved in textual order); a failing redirection stops everything, the command does not run and the status is 1 with normal flow; the prefix assignment is handed to the command (temporary), never applied globally; an assignment-looking word after the name is an argument; an error from the command is displayed and becomes a status (never propagates as Err)'}
#[kani::proof]
#[kani::unwind(10)]
fn vk_c10_simple_command_items_in_order() {
    unsafe { STDERR_LINES = 0; }
    let mut pre = std::vec::Vec::with_capacity(2); pre.push(CommandPrefixOrSuffixItem::AssignmentWord(0, 10)); pre.push(CommandPrefixOrSuffixItem::IoRedirect(0));
    let mut suf = std::vec::Vec::with_capacity(3); suf.push(CommandPrefixOrSuffixItem::IoRedirect(1)); suf.push(CommandPrefixOrSuffixItem::AssignmentWord(1, 11)); suf.push(CommandPrefixOrSuffixItem::Word(2));
    let sc = SC { prefix: Some(ItemList(pre)), word_or_name: Some(1), suffix: Some(ItemList(suf)) };
    let decl: bool = kani::any();
    let mut sh = mk_sh(decl);
    let mut o = IOracle { ev: [(0, 0); 8], n: 0, redirect_fail: kani::any(), exec_fails: kani::any(), exec_assignments: 0, exec_args: 0, code: kani::any(), expansion_sets_status: false };
    kani::assume(o.redirect_fail <= 2);
    let ctx = PipelineExecutionContext { shell: commands::ShellForCommand::ParentShell(&mut sh), process_group_id: None };
    let r = t_sc_items(&sc, ctx, Params { open_files: OpenFilesTok }, &mut o);
    kani::cover!(o.redirect_fail == 2, "second_redirection_fails");
    kani::cover!(o.redirect_fail == 0 && o.exec_fails, "command_errors");
    kani::cover!(o.redirect_fail == 0 && decl, "declaration_builtin_takes_assignment_arguments");
    assert!(r.is_ok(), "C02.simple.never_propagates_err");
    // left to right: r0, name, r1, B=2 (as an argument), arg
    assert!(o.n >= 1 && o.ev[0] == (1, 0), "C10.simple.first_redirection_first");
    if o.redirect_fail == 1 {
        assert!(o.n == 1, "C10.simple.failing_redirection_stops_everything");
    } else {
        assert!(o.ev[1] == (2, 1) && o.ev[2] == (1, 1), "C10.simple.name_expanded_between_the_two_redirections");
        if o.redirect_fail == 2 { assert!(o.n == 3, "C10.simple.failing_redirection_stops_everything"); }
        else {
            assert!(o.ev[3] == if decl { (3, 1) } else { (2, 11) } && o.ev[4] == (2, 2) && o.ev[5] == (4, 0) && o.n == 6, "C10.simple.remaining_items_in_textual_order_then_the_command");
            assert!(o.exec_assignments == 1 && o.exec_args == 3, "C09.simple.prefix_assignment_is_temporary_later_ones_are_arguments");
        }
    }
    if o.redirect_fail != 0 {
        assert!(matches!(&r, Ok(ExecutionSpawnResult::Completed(x)) if u8::from(x.exit_code) == 1 && x.is_normal_flow()), "C10.simple.redirection_failure_is_status_1");
        assert!(unsafe { STDERR_LINES } == 1, "C10.simple.redirection_failure_is_reported");
    } else if o.exec_fails {
        assert!(sh.displayed == 1, "C02.simple.command_error_displayed_once");
    }
    let mut k = 0; while k < 8 { assert!(o.ev[k].0 != 5, "C09.simple.no_global_assignment_when_there_is_a_command"); k += 1; }
    std::mem::forget(r); std::mem::forget(sc);
}

//@proof {'props': ['C09', 'C02', 'C10'], 'tier': 'quick', 'timeout': 900, 'uses': ['sc_items'], 'bounds': 'the statement `A=1 <r0 B=2` (no command word); the redirection may fail', 'desc': 'assignment-only statement: redirections still run in order; both assignments are applied to the shell itself (globally), in order; $_ is cleared; $? becomes 0 and the statement succeeds'}
#[kani::proof]
#[kani::unwind(10)]
fn vk_c09_assignment_only_statement() {
    unsafe { STDERR_LINES = 0; }
    let mut pre = std::vec::Vec::with_capacity(3); pre.push(CommandPrefixOrSuffixItem::AssignmentWord(0, 10)); pre.push(CommandPrefixOrSuffixItem::IoRedirect(0)); pre.push(CommandPrefixOrSuffixItem::AssignmentWord(1, 11));
    let sc = SC { prefix: Some(ItemList(pre)), word_or_name: None, suffix: None };
    let mut sh = mk_sh(false);
    let mut o = IOracle { ev: [(0, 0); 8], n: 0, redirect_fail: kani::any(), exec_fails: false, exec_assignments: 0, exec_args: 0, code: 0, expansion_sets_status: false };
    kani::assume(o.redirect_fail <= 1);
    let ctx = PipelineExecutionContext { shell: commands::ShellForCommand::ParentShell(&mut sh), process_group_id: None };
    let r = t_sc_items(&sc, ctx, Params { open_files: OpenFilesTok }, &mut o);
    kani::cover!(o.redirect_fail == 0, "plain_assignments");
    if o.redirect_fail == 1 {
        assert!(o.n == 1 && matches!(&r, Ok(ExecutionSpawnResult::Completed(x)) if u8::from(x.exit_code) == 1), "C10.assign_only.failing_redirection_is_status_1_nothing_assigned");
    } else {
        assert!(o.n == 3 && o.ev[0] == (1, 0) && o.ev[1] == (5, 0) && o.ev[2] == (5, 1), "C09.assign_only.both_assignments_applied_globally_in_order");
        assert!(sh.last_arg_cleared == 1, "C09.assign_only.last_arg_cleared");
        assert!(sh.status == 0 && matches!(&r, Ok(ExecutionSpawnResult::Completed(x)) if u8::from(x.exit_code) == 0 && x.is_normal_flow()), "C02.assign_only.status_zero");
    }
    std::mem::forget(r); std::mem::forget(sc);
}

//@proof {'props': ['C01', 'C02'], 'tier': 'quick', 'timeout': 900, 'uses': ['sc_items'], 'bounds': 'the command `name arg` where name is or is not an alias (symbolic) whose value splits into 0, 1 or 2 words', 'desc': 'alias replacement in command position: whatever the alias value splits into - including nothing (alias e="") - the command never panics; the alias words replace the name and the remaining words follow'}
#[kani::proof]
#[kani::unwind(10)]
fn vk_c01_alias_in_command_position() {
    let mut suf = std::vec::Vec::with_capacity(1); suf.push(CommandPrefixOrSuffixItem::Word(2));
    let has_arg: bool = kani::any();
    let sc = SC { prefix: None, word_or_name: Some(1), suffix: if has_arg { Some(ItemList(suf)) } else { std::mem::forget(suf); None } };
    let mut sh = mk_sh(false);
    let n: usize = kani::any(); kani::assume(n <= 2);
    let is_alias: bool = kani::any();
    if is_alias { sh.a.alias = Some(AliasTok { n }); }
    let mut o = IOracle { ev: [(0, 0); 8], n: 0, redirect_fail: 0, exec_fails: false, exec_assignments: 0, exec_args: 0, code: kani::any(), expansion_sets_status: false };
    let ctx = PipelineExecutionContext { shell: commands::ShellForCommand::ParentShell(&mut sh), process_group_id: None };
    let r = t_sc_items(&sc, ctx, Params { open_files: OpenFilesTok }, &mut o);
    kani::cover!(is_alias && n == 0 && !has_arg, "alias_expanding_to_nothing_alone");
    kani::cover!(is_alias && n == 2 && has_arg, "two_word_alias_with_an_argument");
    assert!(r.is_ok(), "C02.simple.never_propagates_err");
    let words = if is_alias { n } else { 1 } + has_arg as usize;
    let mut execs = 0; let mut k = 0; while k < 8 { if k < o.n && o.ev[k].0 == 4 { execs += 1; } k += 1; }
    if words > 0 { assert!(execs == 1 && o.exec_args == words, "C02.alias.words_replace_the_name_and_the_rest_follows"); }
    else { assert!(execs == 0, "C02.alias.nothing_to_run"); }
    std::mem::forget(r); std::mem::forget(sc);
}
