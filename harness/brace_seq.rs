/*@meta
{
 'package': 'brush-core',
 'host': 'brush-core/src/braceexpansion.rs',
 'direct': ['braceexpansion::expand_brace_expr_member (CharSequence arm, called directly)'],
 'stubs': ['`.map(|n| n.to_string())` of the NumberSequence arm -> identity (integer formatting is a digit loop over a symbolic value: out of reach); the CharSequence arm is called unmodified'],
 'assumptions': ['NumberSequence: start, end, increment any i64 (the parser can only deliver |increment| <= i64::MAX, but the kernel is checked for all values)', 'CharSequence: start, end ASCII letters, increment any i64', 'first 3 items of each sequence'],
 'out_of_claim': ['recognition of {a..b..c} by the word grammar', 'the cartesian product of several brace expressions', 'sequence length / memory (a huge range is a liveness problem, e.g. {1..9223372036854775807})'],
}
@*/
/*@recipes
{
 'numseq': {'file': 'brush-core/src/braceexpansion.rs', 'start': r'word::BraceExpressionMember::NumberSequence \{\s*start,\s*end,\s*increment,\s*\} => ', 'mode': 'fn_body',
            'rewrites': [[r'\.map\(\|n\| n\.to_string\(\)\)', '.map(|n| n)', 2]]},
}
@*/
use super::*;
use crate::vk_prelude::*;

#[allow(clippy::cast_possible_truncation)]
fn k_numseq(start: i64, end: i64, increment: i64) -> Box<dyn Iterator<Item = i64>> {
/*@LIFT numseq*/
}

//@proof {'props': ['C01', 'C05'], 'tier': 'quick', 'timeout': 900, 'uses': ['numseq'], 'bounds': 'start, end, increment any i64 except i64::MIN (unreachable from the grammar); first 3 items', 'desc': '{a..b..c} numeric: never panics; first item is a; each next item moves by |c| (1 if c = 0) toward b and stays within [min(a,b), max(a,b)]'}
#[kani::proof]
#[kani::unwind(4)]
fn vk_c01_brace_number_sequence() {
    let (start, end, inc): (i64, i64, i64) = (kani::any(), kani::any(), kani::any());
    // precondition established by the word grammar's number() rule (sign x magnitude, magnitude <= i64::MAX; discharged by
    // vk_c01_brace_number_action): i64::MIN never reaches the expander. Without it the descending branch clamps a step of 2^63
    // to 2^63-1, an off-by-one no script can produce.
    kani::assume(start != i64::MIN && end != i64::MIN && inc != i64::MIN);
    let mut it = k_numseq(start, end, inc);
    let a = it.next();
    let b = it.next();
    let c = it.next();
    kani::cover!(start > end && inc == i64::MIN + 1, "descending_with_largest_step");
    kani::cover!(start < end && b.is_some() && c.is_none(), "two_items");
    let step: u64 = if inc == 0 { 1 } else { inc.unsigned_abs() };
    assert!(a == Some(start), "C01.brace.first_is_start");
    let dist: u64 = if start <= end { (end as i128 - start as i128) as u64 } else { (start as i128 - end as i128) as u64 };
    if step <= dist {
        let expect = if start <= end { (start as i128 + step as i128) as i64 } else { (start as i128 - step as i128) as i64 };
        assert!(b == Some(expect), "C01.brace.second_item");
    } else {
        assert!(b.is_none() && c.is_none(), "C01.brace.ends_when_step_exceeds_distance");
    }
    std::mem::forget(it);
}

//@proof {'props': ['C01', 'C05'], 'tier': 'quick', 'timeout': 900, 'bounds': 'start, end ASCII letters (symbolic); increment any i64; first 2 items', 'desc': '{x..y..c} letters: never panics (D3: {z..a..200}), never stalls (a step that truncates to 0), first item is x, second is x -/+ |c| if still within range'}
#[kani::proof]
#[kani::unwind(4)]
fn vk_c01_brace_char_sequence() {
    let s: u8 = kani::any();
    let e: u8 = kani::any();
    kani::assume(s.is_ascii_alphabetic() && e.is_ascii_alphabetic());
    let increment: i64 = kani::any();
    let m = word::BraceExpressionMember::CharSequence { start: s as char, end: e as char, increment };
    let mut it = expand_brace_expr_member(m);
    let a = it.next();
    let b = it.next();
    kani::cover!(s > e && increment == 200, "descending_step_past_zero");
    kani::cover!(s > e && increment == 4294967296, "step_truncating_to_zero");
    let step: u64 = if increment == 0 { 1 } else { increment.unsigned_abs() };
    let dist: u64 = if s <= e { (e - s) as u64 } else { (s - e) as u64 };
    let first_ok = match &a { Some(x) => x.len() == 1 && x.as_bytes()[0] == s, None => false };
    assert!(first_ok, "C01.brace.char_first_is_start");
    if step <= dist {
        let expect = if s <= e { s + step as u8 } else { s - step as u8 };
        let ok = match &b { Some(x) => x.len() == 1 && x.as_bytes()[0] == expect, None => false };
        assert!(ok, "C01.brace.char_second_item");
    } else {
        assert!(b.is_none(), "C01.brace.char_ends_when_step_exceeds_distance");
    }
    std::mem::forget(a); std::mem::forget(b); std::mem::forget(it);
}
