/*@meta
{
 'package': 'brush-core',
 'host': 'brush-core/src/patterns.rs',
 'direct': ['patterns::remove_smallest_matching_prefix', 'patterns::remove_largest_matching_prefix', 'patterns::remove_smallest_matching_suffix', 'patterns::remove_largest_matching_suffix'],
 'stubs': ['fancy-regex -> oracle crate: Regex::is_match(text) answers from a symbolic table of 8 booleans indexed by text.len() (an arbitrary but deterministic predicate of the candidate)',
           'Pattern::to_regex -> returns the oracle regex (pattern translation PEG and the regex cache are outside)', 'tracing -> no-op'],
 'assumptions': ['subjects are the concrete strings "abc", "aé日" (1-, 2- and 3-byte characters) and ""; every candidate prefix/suffix has a distinct byte length, so a table indexed by length is a fully general predicate over candidates'],
 'out_of_claim': ['whether the regex produced for a pattern matches what bash matches (C08)', 'subjects longer than 3 characters', '${v/p/r} (engine replace)'],
}
@*/
use super::*;
use crate::vk_prelude::*;

fn stub_to_regex(_p: &Pattern, _a: bool, _b: bool) -> Result<fancy_regex::Regex, error::Error> {
    Ok(vk_ok(fancy_regex::Regex::new("")))
}

fn table() -> [bool; 8] {
    let m: [bool; 8] = [kani::any(), kani::any(), kani::any(), kani::any(), kani::any(), kani::any(), kani::any(), kani::any()];
    unsafe { fancy_regex::VERIF_MATCH_BY_LEN = m; }
    m
}

/// candidate cut points (byte offsets on character boundaries) of the subject, ascending
fn cuts(which: u8) -> (&'static str, [usize; 4], usize) {
    match which {
        0 => ("abc", [0, 1, 2, 3], 4),
        1 => ("aé日", [0, 1, 3, 6], 4),
        _ => ("", [0, 0, 0, 0], 1),
    }
}

fn prefix_harness(which: u8, largest: bool) {
    let m = table();
    let (s, cut, n) = cuts(which);
    let pat = Pattern::from("x");
    let r = if largest { remove_largest_matching_prefix(s, Some(&pat)) } else { remove_smallest_matching_prefix(s, Some(&pat)) };
    let r = vk_ok(r);
    // reference: the prefix s[..c] is removable iff the predicate holds for it (its length is c); pick smallest / largest such c
    let mut best: Option<usize> = None;
    let mut i = 0;
    while i < 4 {
        if i < n && m[cut[i]] { if largest { best = Some(cut[i]); } else if best.is_none() { best = Some(cut[i]); } }
        i += 1;
    }
    kani::cover!(n == 1 || (m[0] && m[cut[1]]), "empty_and_first_char_both_match");
    kani::cover!(best.is_none(), "nothing_matches");
    let expect_len = s.len() - best.unwrap_or(0);
    assert!(r.len() == expect_len, "C06.prefix.removes_exactly_the_shortest_or_longest_match");
    // the result is the tail of the subject (same end), so comparing lengths identifies it
    assert!(r.as_ptr() as usize + r.len() == s.as_ptr() as usize + s.len(), "C06.prefix.result_is_a_tail_of_subject");
    std::mem::forget(pat);
}

fn suffix_harness(which: u8, largest: bool) {
    let m = table();
    let (s, cut, n) = cuts(which);
    let pat = Pattern::from("x");
    let r = if largest { remove_largest_matching_suffix(s, Some(&pat)) } else { remove_smallest_matching_suffix(s, Some(&pat)) };
    let r = vk_ok(r);
    // suffix s[c..] has length len - c
    let mut best: Option<usize> = None;   // cut position of the chosen suffix
    let mut i = 0;
    while i < 4 {
        if i < n && m[s.len() - cut[i]] { if largest { if best.is_none() { best = Some(cut[i]); } } else { best = Some(cut[i]); } }
        i += 1;
    }
    kani::cover!(n == 1 || (m[0] && m[s.len() - cut[n - 2]]), "empty_and_last_char_both_match");
    kani::cover!(best.is_none(), "nothing_matches");
    let expect_len = best.unwrap_or(s.len());
    assert!(r.len() == expect_len, "C06.suffix.removes_exactly_the_shortest_or_longest_match");
    assert!(r.as_ptr() as usize == s.as_ptr() as usize, "C06.suffix.result_is_a_head_of_subject");
    std::mem::forget(pat);
}

//@proof {'props': ['C06'], 'tier': 'quick', 'timeout': 900, 'bounds': 'subject "abc"; all 2^4 relevant match tables', 'render': 'prefix_removal', 'desc': '${v#p}: removes the shortest matching prefix, the empty one included (D7)'}
#[kani::proof]
#[kani::unwind(6)]
#[kani::stub(crate::patterns::Pattern::to_regex, stub_to_regex)]
fn vk_c06_smallest_prefix_ascii() { prefix_harness(0, false); }

//@proof {'props': ['C06'], 'tier': 'quick', 'timeout': 900, 'bounds': 'subject "abc"', 'render': 'prefix_removal', 'desc': '${v##p}: removes the longest matching prefix'}
#[kani::proof]
#[kani::unwind(6)]
#[kani::stub(crate::patterns::Pattern::to_regex, stub_to_regex)]
fn vk_c06_largest_prefix_ascii() { prefix_harness(0, true); }

//@proof {'props': ['C06'], 'tier': 'quick', 'timeout': 900, 'bounds': 'subject "abc"', 'render': 'suffix_removal', 'desc': '${v%p}: removes the shortest matching suffix, the empty one included (D7)'}
#[kani::proof]
#[kani::unwind(6)]
#[kani::stub(crate::patterns::Pattern::to_regex, stub_to_regex)]
fn vk_c06_smallest_suffix_ascii() { suffix_harness(0, false); }

//@proof {'props': ['C06'], 'tier': 'quick', 'timeout': 900, 'bounds': 'subject "abc"', 'render': 'suffix_removal', 'desc': '${v%%p}: removes the longest matching suffix'}
#[kani::proof]
#[kani::unwind(6)]
#[kani::stub(crate::patterns::Pattern::to_regex, stub_to_regex)]
fn vk_c06_largest_suffix_ascii() { suffix_harness(0, true); }

//@proof {'props': ['C06', 'C01'], 'tier': 'quick', 'timeout': 1200, 'bounds': 'subject "aé日" (1/2/3-byte characters); smallest/largest symbolic', 'desc': 'prefix removal on multi-byte text: candidates end on character boundaries only, no slicing panic'}
#[kani::proof]
#[kani::unwind(8)]
#[kani::stub(crate::patterns::Pattern::to_regex, stub_to_regex)]
fn vk_c06_prefix_multibyte() { prefix_harness(1, kani::any()); }

//@proof {'props': ['C06', 'C01'], 'tier': 'quick', 'timeout': 1200, 'bounds': 'subject "aé日"; smallest/largest symbolic', 'desc': 'suffix removal on multi-byte text'}
#[kani::proof]
#[kani::unwind(8)]
#[kani::stub(crate::patterns::Pattern::to_regex, stub_to_regex)]
fn vk_c06_suffix_multibyte() { suffix_harness(1, kani::any()); }

//@proof {'props': ['C06', 'C01'], 'tier': 'quick', 'timeout': 900, 'bounds': 'empty subject; all four operators', 'desc': 'removal from an empty value yields the empty value'}
#[kani::proof]
#[kani::unwind(6)]
#[kani::stub(crate::patterns::Pattern::to_regex, stub_to_regex)]
fn vk_c06_removal_empty_subject() {
    if kani::any() { prefix_harness(2, kani::any()); } else { suffix_harness(2, kani::any()); }
}
