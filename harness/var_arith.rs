/*@meta
{
 'package': 'brush-core',
 'host': 'brush-core/src/variables.rs',
 'stubs': ['str::parse::<i64/u64>() on the operand strings -> duck-typed stand-in whose parse() returns an arbitrary Result (std contract: Ok(any value of the type) or Err)',
           'BTreeMap<u64,String> of the indexed array -> recorder with last_key_value()/insert()/len() (key arithmetic only)'],
 'assumptions': ['operands any i64 / keys any u64; array literal of 2 elements, each with an optional explicit key'],
 'out_of_claim': ['the string side of integer-attribute assignment (to_string, case transforms: D5 declare -c on multi-byte)', 'how declare -i reaches this code', 'evaluation of arithmetic expressions in integer-attribute assignment (only plain integers are added here)'],
}
@*/
/*@recipes
{
 'int_append': {'file': 'brush-core/src/variables.rs', 'start': r'^\s*let int_value = base\s*\.parse::<i64>\(\)', 'mode': 'until', 'end': r'^\s*base\.clear\(\);'},
 'elem_append': {'file': 'brush-core/src/variables.rs', 'start': r'^\s*new_value = existing_value\s*\.parse::<i64>\(\)', 'nth': 0, 'mode': 'until', 'end': r'^\s*\} else \{',
                 'rewrites': [[r'\.to_string\(\);', ';', 1]]},
 'update_keys': {'file': 'brush-core/src/variables.rs', 'start': r'^\s*fn update_indexed_array_from_literals\(', 'mode': 'fn_body'},
 'neg_key': {'file': 'brush-core/src/variables.rs', 'start': r'^fn get_key_for_indexed_array\(', 'mode': 'fn_body',
             'rewrites': [[r'index_str\.to_owned\(\)', 'String::new()', 1]]},
}
@*/
use super::*;
use crate::vk_prelude::*;

/// a numeric string seen only through parse(): Ok(v) or Err
pub struct NumStr { pub v: Option<i64> }
impl NumStr { pub fn parse<T: TryFrom<i64>>(&self) -> Result<T, ()> { match self.v { Some(x) => T::try_from(x).map_err(|_| ()), None => Err(()) } } }
pub struct KeyStr { pub v: Option<u64> }
impl KeyStr { pub fn parse<T: TryFrom<u64>>(&self) -> Result<T, ()> { match self.v { Some(x) => T::try_from(x).map_err(|_| ()), None => Err(()) } } }
fn any_num() -> NumStr { NumStr { v: if kani::any() { Some(kani::any()) } else { None } } }

fn k_int_append(base: &NumStr, suffix: &NumStr) -> i64 {
/*@LIFT int_append*/
    int_value
}
fn k_elem_append(existing_value: &NumStr, value: &NumStr) -> i64 {
    let new_value;
/*@LIFT elem_append*/
    new_value
}

//@proof {'props': ['C01', 'C07'], 'tier': 'quick', 'timeout': 600, 'uses': ['int_append', 'elem_append'], 'bounds': 'both operands any i64 or unparsable', 'desc': 'declare -i x; x+=n and a[i]+=n: two\'s-complement wrap (bash), never a panic (D4); unparsable operands count as 0'}
#[kani::proof]
#[kani::unwind(2)]
fn vk_c01_integer_append_wraps() {
    let (b, s) = (any_num(), any_num());
    let r = k_int_append(&b, &s);
    let r2 = k_elem_append(&b, &s);
    let (x, y) = (b.v.unwrap_or(0), s.v.unwrap_or(0));
    kani::cover!(x == i64::MAX && y == 1, "max_plus_one");
    let expect = ((x as u64).wrapping_add(y as u64)) as i64;
    assert!(r == expect, "C07.intattr.append_wraps");
    assert!(r2 == expect, "C07.intattr.element_append_wraps");
}

// ---------------------------------------------------------------- array key arithmetic
pub struct KeyMap { pub last: Option<u64>, pub inserted: [u64; 3], pub n: usize, pub count: usize }
impl KeyMap {
    pub fn last_key_value(&self) -> Option<(&u64, &())> { match &self.last { Some(k) => Some((k, &())), None => None } }
    pub fn insert(&mut self, k: u64, _v: ()) { if self.n < 3 { self.inserted[self.n] = k; } self.n += 1; }
    pub fn len(&self) -> usize { self.count }
}
pub struct Lits(pub Vec<(Option<KeyStr>, ())>);

fn k_update_keys(existing_values: &mut KeyMap, literal_values: Lits) {
/*@LIFT update_keys*/
}
fn k_neg_key(values: &KeyMap, index_str: &NumStr) -> Result<u64, error::Error> {
/*@LIFT neg_key*/
}

//@proof {'props': ['C01'], 'tier': 'quick', 'timeout': 600, 'uses': ['update_keys'], 'bounds': 'existing largest key any u64 or none; 2 literals with optional explicit keys any u64', 'desc': 'a=([k]=v w) / a+=(v w): implicit indices continue from the previous one; no overflow panic at 2^64-1 (D6)'}
#[kani::proof]
#[kani::unwind(4)]
fn vk_c01_array_literal_keys() {
    let mut m = KeyMap { last: if kani::any() { Some(kani::any()) } else { None }, inserted: [0; 3], n: 0, count: 0 };
    let k0: Option<u64> = if kani::any() { Some(kani::any()) } else { None };
    let k1: Option<u64> = if kani::any() { Some(kani::any()) } else { None };
    let mut v = Vec::with_capacity(2);
    v.push((k0.map(|x| KeyStr { v: Some(x) }), ()));
    v.push((k1.map(|x| KeyStr { v: Some(x) }), ()));
    kani::cover!(k0 == Some(u64::MAX) && k1.is_none(), "explicit_max_then_implicit");
    kani::cover!(m.last == Some(u64::MAX), "existing_max");
    k_update_keys(&mut m, Lits(v));
    assert!(m.n == 2, "C01.arraykeys.both_inserted");
    let first = match k0 { Some(k) => k, None => match m.last { Some(l) => l.wrapping_add(1), None => 0 } };
    assert!(m.inserted[0] == first, "C01.arraykeys.first_key");
    let second = match k1 { Some(k) => k, None => first.wrapping_add(1) };
    assert!(m.inserted[1] == second, "C01.arraykeys.second_key");
}

//@proof {'props': ['C01', 'C06'], 'tier': 'quick', 'timeout': 600, 'uses': ['neg_key'], 'bounds': 'subscript any i64 or unparsable; array of any size < 2^32', 'desc': 'negative array subscripts count from the end; out-of-range negative subscripts are an error, never a panic or a wrapped index'}
#[kani::proof]
#[kani::unwind(2)]
fn vk_c06_negative_subscript() {
    let count: usize = kani::any();
    kani::assume(count < (1usize << 32));
    let m = KeyMap { last: None, inserted: [0; 3], n: 0, count };
    let idx = any_num();
    let r = k_neg_key(&m, &idx);
    let i = idx.v.unwrap_or(0);
    kani::cover!(i == -1 && count == 3, "last_element");
    kani::cover!(i == i64::MIN, "min_subscript");
    if i >= 0 { assert!(matches!(r, Ok(k) if k == i as u64), "C06.subscript.nonnegative_is_itself"); }
    else if (i as i128) + (count as i128) >= 0 { assert!(matches!(r, Ok(k) if k as i128 == i as i128 + count as i128), "C06.subscript.negative_counts_from_end"); }
    else { assert!(r.is_err(), "C06.subscript.out_of_range_is_error"); }
    std::mem::forget(r);
}
