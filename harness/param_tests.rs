/*@meta
{
 'package': 'brush-core',
 'host': 'brush-core/src/expansion.rs',
 'direct': ['Expansion::classify', 'Expansion::undefined'],
 'stubs': ['tracing -> no-op stub crate', 'self.expand_parameter_word(..).await / basic_expand_to_str / assign_to_parameter / fields_to_string / expand_parameter_without_indirect / parse_parameter -> oracle methods (results tagged, calls counted)',
           'std::hash::RandomState::new, SystemTime::now -> fixed (only for the nounset harness that needs a Shell)'],
 'assumptions': ['parameter values are concrete-shaped Expansions: unset; empty array via [@]; scalar holding ""; scalar with one field of zero pieces; scalar "x"; two-field list'],
 'out_of_claim': ['how a parameter is looked up (expand_parameter_without_indirect: strings, HashMap)', 'expansion of the operand word', 'which expansions count as unset for special parameters'],
}
@*/
/*@recipes
{
 'use_default': {'file': 'brush-core/src/expansion.rs', 'start': r'brush_parser::word::ParameterExpr::UseDefaultValues \{[^}]*\} => ', 'mode': 'fn_body',
                 'rewrites': [[r'self\s*\.expand_parameter_allowing_unset\(&parameter, indirect\)\s*\.await', '__o.param()', 1], [r'self\.expand_parameter_word\(\w+\)\s*\.await', '__o.word()', 1]]},
 'assign_default': {'file': 'brush-core/src/expansion.rs', 'start': r'brush_parser::word::ParameterExpr::AssignDefaultValues \{[^}]*\} => ', 'mode': 'fn_body',
                 'rewrites': [[r'self\s*\.expand_parameter_allowing_unset\(&parameter, indirect\)\s*\.await', '__o.param()', 1], [r'self\.expand_parameter_word\(\w+\)\s*\.await', '__o.word()', 1],
                              [r'self\.fields_to_string\(expanded_default\)', '__o.to_string(expanded_default)', 1],
                              [r'self\.assign_to_parameter\(&parameter, expanded_default_value\.clone\(\)\)\s*\.await', '__o.assign()', 1],
                              [r'Expansion::from\(expanded_default_value\)', '__o.from_assigned(expanded_default_value)', 1]]},
 'error_if': {'file': 'brush-core/src/expansion.rs', 'start': r'brush_parser::word::ParameterExpr::IndicateErrorIfNullOrUnset \{[^}]*\} => ', 'mode': 'fn_body',
                 'rewrites': [[r'self\s*\.expand_parameter_allowing_unset\(&parameter, indirect\)\s*\.await', '__o.param()', 1], [r'self\.basic_expand_to_str\(error_message\)\s*\.await', '__o.msg()', 1]]},
 'use_alt': {'file': 'brush-core/src/expansion.rs', 'start': r'brush_parser::word::ParameterExpr::UseAlternativeValue \{[^}]*\} => ', 'mode': 'fn_body',
                 'rewrites': [[r'self\s*\.expand_parameter_allowing_unset\(&parameter, indirect\)\s*\.await', '__o.param()', 1], [r'self\.expand_parameter_word\(\w+\)\s*\.await', '__o.word()', 1]]},
 'undefined_expansion': {'file': 'brush-core/src/expansion.rs', 'start': r'^\s*fn undefined_expansion\(', 'mode': 'fn_body', 'self_to': 'this'},
 'expand_internal': {'file': 'brush-core/src/expansion.rs', 'start': r'^\s*async fn expand_parameter_internal\(', 'mode': 'fn_body', 'self_to': 'this',
                 'rewrites': [[r'this\s*\.expand_parameter_without_indirect\((&?\w+), (\w+)\)\s*\.await', r'__o.lookup(\2)', 2],
                              [r'this\.fields_to_string\((\w+)\)', r'__o.to_string(\1)', 1],
                              [r'brush_parser::word::parse_parameter\(parameter_str\.as_str\(\), &this\.parser_options\)', r'__o.parse_parameter()', 1]]},
 'allowing_unset': {'file': 'brush-core/src/expansion.rs', 'start': r'^\s*async fn expand_parameter_allowing_unset\(', 'mode': 'fn_body', 'self_to': 'this',
                 'rewrites': [[r'this\.expand_parameter_internal\(parameter, indirect, (\w+)\)\s*\.await', r'__o.internal(\1)', 1]]},
 'not_allowing_unset': {'file': 'brush-core/src/expansion.rs', 'start': r'^\s*async fn expand_parameter\(', 'mode': 'fn_body', 'self_to': 'this',
                 'rewrites': [[r'this\.expand_parameter_internal\(parameter, indirect, (\w+)\)\s*\.await', r'__o.internal(\1)', 1]]},
}
@*/
use super::*;
use crate::vk_prelude::*;
use brush_parser::word::ParameterTestType as TT;

// results are tagged through the boolean members of Expansion (texts are never compared):
//   the parameter's own value: from_array == false ; the operand word: fields empty + from_array == true ; assigned default: fields empty + from_array == true + concatenate == false
pub struct Oracle { pub pv: Option<Expansion>, pub params: u8, pub words_before_param: u8, pub words: u8, pub assigns: u8, pub msgs: u8, pub lookups: u8, pub lookup_flags: [bool; 2], pub parses: u8, pub internal_flag: Option<bool>, pub first_lookup_fails: bool }
impl Oracle {
    fn new() -> Self { Oracle { pv: None, params: 0, words_before_param: 0, words: 0, assigns: 0, msgs: 0, lookups: 0, lookup_flags: [false; 2], parses: 0, internal_flag: None, first_lookup_fails: false } }
    /// the parameter's own (unset-tolerant) expansion: handed out once
    fn param(&mut self) -> Result<Expansion, error::Error> { self.params += 1; Ok(self.pv.take().unwrap_or_default()) }
    fn word(&mut self) -> Result<Expansion, error::Error> { self.words += 1; if self.params == 0 { self.words_before_param += 1; } Ok(Expansion { fields: Vec::new(), concatenate: true, from_array: true, undefined: false }) }
    fn to_string(&mut self, e: Expansion) -> String { std::mem::forget(e); String::new() }
    fn assign(&mut self) -> Result<(), error::Error> { self.assigns += 1; Ok(()) }
    fn from_assigned(&mut self, s: String) -> Expansion { std::mem::forget(s); Expansion { fields: Vec::new(), concatenate: false, from_array: true, undefined: false } }
    fn msg(&mut self) -> Result<String, error::Error> { self.msgs += 1; Ok(String::new()) }
    fn lookup(&mut self, allow: bool) -> Result<Expansion, error::Error> {
        let i = self.lookups as usize; self.lookups += 1;
        if i < 2 { self.lookup_flags[i] = allow; }
        if i == 0 && self.first_lookup_fails { return Err(error::ErrorKind::NotArray.into()); }
        Ok(Expansion { fields: Vec::new(), concatenate: true, from_array: false, undefined: false })
    }
    fn parse_parameter(&mut self) -> Result<brush_parser::word::Parameter, error::Error> { self.parses += 1; Ok(brush_parser::word::Parameter::Positional(1)) }
    fn internal(&mut self, allow: bool) -> Result<Expansion, error::Error> { self.internal_flag = Some(allow); Ok(Expansion::default()) }
}

fn k_use_default(test_type: TT, pv: Expansion, __o: &mut Oracle) -> Result<Expansion, error::Error> {
    __o.pv = Some(pv);
    let (parameter, indirect, default_value): (brush_parser::word::Parameter, bool, Option<String>) = (brush_parser::word::Parameter::Positional(1), false, None);
    /*@LIFT use_default*/
}
fn k_assign_default(test_type: TT, pv: Expansion, parameter: brush_parser::word::Parameter, __o: &mut Oracle) -> Result<Expansion, error::Error> {
    __o.pv = Some(pv);
    let (indirect, default_value): (bool, Option<String>) = (false, None);
    /*@LIFT assign_default*/
}
fn k_error_if(test_type: TT, pv: Expansion, __o: &mut Oracle) -> Result<Expansion, error::Error> {
    __o.pv = Some(pv);
    let (parameter, indirect, error_message): (brush_parser::word::Parameter, bool, Option<String>) = (brush_parser::word::Parameter::Positional(1), false, None);
    /*@LIFT error_if*/
}
fn k_use_alt(test_type: TT, pv: Expansion, __o: &mut Oracle) -> Result<Expansion, error::Error> {
    __o.pv = Some(pv);
    let (parameter, indirect, alternative_value): (brush_parser::word::Parameter, bool, Option<String>) = (brush_parser::word::Parameter::Positional(1), false, None);
    /*@LIFT use_alt*/
}

/// value shapes: 0 unset; 1 empty array through [@]; 2 scalar ""; 3 scalar with a field of zero pieces; 4 scalar "x"; 5 list ("", "x")
fn value(shape: u8) -> Expansion {
    let piece = |s: &str| ExpansionPiece::Splittable(String::from(s));
    match shape {
        0 => Expansion::undefined(),
        1 => Expansion { fields: Vec::new(), concatenate: false, from_array: false, undefined: false },
        2 => { let mut p = Vec::with_capacity(1); p.push(piece("")); let mut f = Vec::with_capacity(1); f.push(WordField(p)); Expansion { fields: f, concatenate: true, from_array: false, undefined: false } }
        3 => { let mut f = Vec::with_capacity(1); f.push(WordField(Vec::new())); Expansion { fields: f, concatenate: true, from_array: false, undefined: false } }
        4 => { let mut p = Vec::with_capacity(1); p.push(piece("x")); let mut f = Vec::with_capacity(1); f.push(WordField(p)); Expansion { fields: f, concatenate: true, from_array: false, undefined: false } }
        _ => { let mut p0 = Vec::with_capacity(1); p0.push(piece("")); let mut p1 = Vec::with_capacity(1); p1.push(piece("x"));
               let mut f = Vec::with_capacity(2); f.push(WordField(p0)); f.push(WordField(p1)); Expansion { fields: f, concatenate: false, from_array: false, undefined: false } }
    }
}
/// POSIX 2.6.2 state of each shape: 0 = unset, 1 = set but null, 2 = set and not null
fn state_of(shape: u8) -> u8 { match shape { 0 | 1 => 0, 2 | 3 => 1, _ => 2 } }

fn table_harness(shape: u8) {
    let colon: bool = kani::any();
    let op: u8 = any_below(4);                       // 0 '-'  1 '='  2 '?'  3 '+'
    let tt = if colon { TT::UnsetOrNull } else { TT::Unset };
    let mut o = Oracle::new();
    let v = value(shape);
    let st = state_of(shape);
    // POSIX table: does the operator substitute (use the word / fail), or keep the parameter?
    let triggers = st == 0 || (st == 1 && colon);
    let r = match op {
        0 => k_use_default(tt, v, &mut o),
        1 => k_assign_default(tt, v, brush_parser::word::Parameter::Positional(1), &mut o),
        2 => k_error_if(tt, v, &mut o),
        _ => k_use_alt(tt, v, &mut o),
    };
    assert!(o.params == 1, "C06.tests.parameter_looked_up_once_tolerating_unset");
    // reachability witnesses (each satisfiable for every value shape; the shape-specific ones are guarded by the state)
    kani::cover!(op == 1 && (triggers || st == 2), "assign_operator");
    kani::cover!(op == 3 && !colon && (st == 1 || st != 1), "plus_without_colon");
    kani::cover!(op == 2 && (triggers || st == 2), "error_operator");
    kani::cover!(st != 1 || (colon && triggers), "colon_makes_null_trigger");
    // an operand word that is not used must not be expanded at all (under `set -u` expanding it could abort the shell on a name bash never looks at)
    if (op <= 1 && !triggers) || (op == 3 && triggers) { assert!(o.words == 0, "C03.nounset.unused_operand_word_is_never_expanded"); }
    if op == 2 && !triggers { assert!(o.msgs == 0, "C03.nounset.unused_error_message_is_never_expanded"); }
    match op {
        0 => { let e = vk_ok(r);
               if triggers { assert!(e.from_array && o.words == 1, "C06.default.uses_word"); } else { assert!(!e.from_array && o.words == 0, "C06.default.keeps_parameter"); }
               assert!(o.assigns == 0, "C06.default.never_assigns"); std::mem::forget(e); }
        1 => { let e = vk_ok(r);
               if triggers { assert!(e.from_array && !e.concatenate && o.words == 1 && o.assigns == 1, "C06.assign.assigns_and_yields_word"); }
               else { assert!(!e.from_array && o.assigns == 0 && o.words == 0, "C06.assign.keeps_parameter"); }
               std::mem::forget(e); }
        2 => { if triggers { assert!(r.is_err() && o.msgs == 1, "C06.error.fails"); } else { assert!(matches!(&r, Ok(e) if !e.from_array) && o.msgs == 0, "C06.error.keeps_parameter"); }
               std::mem::forget(r); }
        _ => { let e = vk_ok(r);
               if triggers { assert!(o.words == 0 && !e.from_array && e.fields.len() == 1 && e.fields[0].0.len() <= 1, "C06.alt.yields_null"); }
               else { assert!(e.from_array && o.words == 1, "C06.alt.uses_word"); }
               std::mem::forget(e); }
    }
}

//@proof {'props': ['C06', 'C03'], 'tier': 'quick', 'timeout': 600, 'uses': ['use_default', 'assign_default', 'error_if', 'use_alt'], 'bounds': 'parameter unset; operators - = ? + with/without colon', 'render': 'param_test', 'desc': 'POSIX 2.6.2 table on an unset parameter'}
#[kani::proof]
#[kani::unwind(4)]
fn vk_c06_tests_unset() { table_harness(0); }

//@proof {'props': ['C06', 'C03'], 'tier': 'quick', 'timeout': 600, 'uses': ['use_default', 'assign_default', 'error_if', 'use_alt'], 'bounds': 'parameter set to ""', 'render': 'param_test', 'desc': 'POSIX 2.6.2 table on a set-but-null parameter'}
#[kani::proof]
#[kani::unwind(4)]
fn vk_c06_tests_null() { table_harness(2); }

//@proof {'props': ['C06', 'C03'], 'tier': 'quick', 'timeout': 600, 'uses': ['use_default', 'assign_default', 'error_if', 'use_alt'], 'bounds': 'parameter set to "x"', 'render': 'param_test', 'desc': 'POSIX 2.6.2 table on a set, non-null parameter'}
#[kani::proof]
#[kani::unwind(4)]
fn vk_c06_tests_set() { table_harness(4); }

//@proof {'props': ['C06'], 'tier': 'thorough', 'timeout': 600, 'uses': ['use_default', 'assign_default', 'error_if', 'use_alt'], 'bounds': 'empty array through [@] (bash: unset)', 'desc': 'table on an empty array expansion'}
#[kani::proof]
#[kani::unwind(4)]
fn vk_c06_tests_empty_array() { table_harness(1); }

//@proof {'props': ['C06'], 'tier': 'thorough', 'timeout': 600, 'uses': ['use_default', 'assign_default', 'error_if', 'use_alt'], 'bounds': 'field with zero pieces', 'desc': 'table on a scalar whose single field has no pieces (null)'}
#[kani::proof]
#[kani::unwind(4)]
fn vk_c06_tests_null_nopieces() { table_harness(3); }

//@proof {'props': ['C06'], 'tier': 'thorough', 'timeout': 600, 'uses': ['use_default', 'assign_default', 'error_if', 'use_alt'], 'bounds': 'two-field list ("", "x")', 'desc': 'table on a list with an empty first field (set, not null)'}
#[kani::proof]
#[kani::unwind(4)]
fn vk_c06_tests_list() { table_harness(5); }

// ================================================================ nounset (C03)
type Sh = Shell<extensions::DefaultShellExtensions>;
pub struct ExpanderProbe<'a> { pub shell: &'a Sh }
fn k_undefined_expansion(this: &ExpanderProbe<'_>, parameter: &brush_parser::word::Parameter, allow_unset_vars: bool) -> Result<Expansion, error::Error> {
/*@LIFT undefined_expansion*/
}
fn k_expand_internal(parameter: &brush_parser::word::Parameter, indirect: bool, allow_unset_vars: bool, __o: &mut Oracle) -> Result<Expansion, error::Error> {
/*@LIFT expand_internal*/
}
fn k_allowing_unset(parameter: &brush_parser::word::Parameter, indirect: bool, __o: &mut Oracle) -> Result<Expansion, error::Error> {
/*@LIFT allowing_unset*/
}
fn k_not_allowing_unset(parameter: &brush_parser::word::Parameter, indirect: bool, __o: &mut Oracle) -> Result<Expansion, error::Error> {
/*@LIFT not_allowing_unset*/
}

//@proof {'props': ['C03'], 'tier': 'quick', 'timeout': 600, 'uses': ['undefined_expansion'], 'bounds': 'nounset x operator-tolerates-unset symbolic', 'desc': 'set -u: expanding an unset parameter is a fatal error iff nounset is on and the operator does not tolerate unset; otherwise it yields the unset marker'}
#[kani::proof]
#[kani::unwind(4)]
#[kani::stub(std::hash::RandomState::new, crate::vk_prelude::stub_random_state_new)]
#[kani::stub(std::time::SystemTime::now, crate::vk_prelude::stub_now)]
#[kani::stub(alloc::fmt::format, crate::vk_prelude::stub_fmt_format)]
fn vk_c03_nounset_decision() {
    let mut shell: Sh = Shell::default();
    let nounset: bool = kani::any();
    shell.options_mut().treat_unset_variables_as_error = nounset;
    let allow: bool = kani::any();
    let p = brush_parser::word::Parameter::Positional(1);
    let probe = ExpanderProbe { shell: &shell };
    let r = k_undefined_expansion(&probe, &p, allow);
    kani::cover!(nounset && !allow, "fatal_case");
    if nounset && !allow {
        assert!(r.is_err(), "C03.nounset.unset_is_error");
    } else {
        assert!(matches!(&r, Ok(e) if e.undefined), "C03.nounset.tolerated_yields_unset_marker");
    }
    std::mem::forget(r); std::mem::forget(shell);
}

//@proof {'props': ['C03', 'C06'], 'tier': 'quick', 'timeout': 600, 'uses': ['expand_internal', 'allowing_unset', 'not_allowing_unset'], 'bounds': 'direct and indirect (${!ref...}) lookups', 'desc': 'the tolerate-unset flag chosen by the operator reaches every lookup unchanged: test operators (- = ? +) pass true, plain ${p} passes false; an indirect expansion hands the same flag to both the reference lookup and the target lookup'}
#[kani::proof]
#[kani::unwind(4)]
fn vk_c03_nounset_flag_propagation() {
    let p = brush_parser::word::Parameter::Positional(1);
    let indirect: bool = kani::any();
    let allow: bool = kani::any();
    let mut o = Oracle::new();
    let r = k_expand_internal(&p, indirect, allow, &mut o);
    kani::cover!(indirect && allow, "indirect_tolerant");
    assert!(r.is_ok(), "C03.nounset.lookup_ok");
    assert!(o.lookups == if indirect { 2 } else { 1 }, "C03.nounset.number_of_lookups");
    assert!(o.lookup_flags[0] == allow, "C03.nounset.flag_reaches_lookup");
    if indirect { assert!(o.lookup_flags[1] == allow && o.parses == 1, "C03.nounset.flag_reaches_indirect_target_lookup"); }
    let mut o2 = Oracle::new();
    let r2 = k_allowing_unset(&p, indirect, &mut o2);
    assert!(o2.internal_flag == Some(true), "C03.nounset.test_operators_tolerate_unset");
    let mut o3 = Oracle::new();
    let r3 = k_not_allowing_unset(&p, indirect, &mut o3);
    assert!(o3.internal_flag == Some(false), "C03.nounset.plain_expansion_does_not_tolerate");
    std::mem::forget(r); std::mem::forget(r2); std::mem::forget(r3);
}
