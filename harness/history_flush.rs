/*@meta
{
 'package': 'brush-core',
 'host': 'brush-core/src/history.rs',
 'stubs': ['std::fs::File::options() -> recorder whose open() truncates an in-memory disk iff truncate(true) was requested without append(true)',
           'writeln!(file, ..) -> recorder logging (item id, is-timestamp-line); the text is not inspected',
           'self.items / self.id_map (rpds containers) -> 2-element array and a lookup with the contract of get_mut',
           'Item -> stand-in with the same field names (dirty, timestamp: Option<probe>, command_line)'],
 'assumptions': ['2 items, ids 0 and 1 in recording order; dirty items form a suffix of the list (import marks clean, add appends dirty); the disk initially holds exactly the clean items (they were imported from it)',
                 'save call sites: exit-time / `history -a` = flush(append=true, unsaved_only=true); `history -w` = flush(append=false, unsaved_only=false)'],
 'out_of_claim': ['the real rpds containers', 'History::import (line reading, #epoch parsing)', 'add / remove_nth_item / delete_item_by_id / clear',
                  'multi-session interleavings on one file', 'multi-line commands', 'the reedline adapter', 'the history builtin option handling', 'saving to a file other than $HISTFILE'],
}
@*/
/*@recipes
{
 'flush': {'file': 'brush-core/src/history.rs', 'start': r'^\s*pub fn flush\(', 'mode': 'fn_body', 'self_to': 'this',
           'rewrites': [[r'std::fs::File::options\(\)', '__env.options()', 1]]},
}
@*/
use super::*;

pub struct Disk { pub lines: [i8; 8], pub ts: [bool; 8], pub len: usize, pub truncations: u8, pub writes: u8, pub fail_at: u8 }
pub struct Env { pub disk: *mut Disk }
pub struct Opts { disk: *mut Disk, append: bool, truncate: bool }
pub struct FileRec { disk: *mut Disk }
impl Env { pub fn options(&mut self) -> Opts { Opts { disk: self.disk, append: false, truncate: false } } }
impl Opts {
    pub fn append(&mut self, v: bool) -> &mut Self { self.append = v; self }
    pub fn write(&mut self, _v: bool) -> &mut Self { self }
    pub fn truncate(&mut self, v: bool) -> &mut Self { self.truncate = v; self }
    pub fn create(&mut self, _v: bool) -> &mut Self { self }
    pub fn open(&mut self, _p: &std::path::Path) -> Result<FileRec, error::Error> {
        let d = unsafe { &mut *self.disk };
        if self.truncate && !self.append { d.len = 0; d.truncations += 1; }
        Ok(FileRec { disk: self.disk })
    }
}
static mut CUR_ITEM: i8 = -1;
static mut CUR_IS_TS: bool = false;
impl FileRec {
    // `writeln!(file, ...)` expands to `file.write_fmt(format_args!(...))`
    pub fn write_fmt(&mut self, _a: std::fmt::Arguments<'_>) -> Result<(), error::Error> {
        let d = unsafe { &mut *self.disk };
        d.writes += 1;
        // fault injection: the k-th write of this run fails (ENOSPC / EIO) and nothing reaches the file
        if d.fail_at != 0 && d.writes == d.fail_at { unsafe { CUR_IS_TS = false; } return Err(error::ErrorKind::NotArray.into()); }
        unsafe {
            if d.len < 8 { d.lines[d.len] = CUR_ITEM; d.ts[d.len] = CUR_IS_TS; }
            d.len += 1;
            CUR_IS_TS = false;
        }
        Ok(())
    }
    pub fn flush(&mut self) -> Result<(), error::Error> { Ok(()) }
}
#[derive(Clone, Copy)]
pub struct TsProbe;
impl TsProbe { pub fn timestamp(&self) -> i64 { unsafe { CUR_IS_TS = true; } 0 } }
pub struct KItem { pub dirty: bool, pub timestamp: Option<TsProbe>, pub command_line: u8 }
pub struct MapRec { pub items: [KItem; 2] }
impl MapRec {
    pub fn get_mut(&mut self, id: &i8) -> Option<&mut KItem> {
        unsafe { CUR_ITEM = *id; }
        if *id == 0 { Some(&mut self.items[0]) } else if *id == 1 { Some(&mut self.items[1]) } else { None }
    }
}
pub struct Hist { pub items: [i8; 2], pub id_map: MapRec }

fn k_flush(this: &mut Hist, __env: &mut Env, history_file_path: &std::path::Path, append: bool, unsaved_items_only: bool, write_timestamps: bool) -> Result<(), error::Error> {
/*@LIFT flush*/
}

/// number of command (non-timestamp) lines of item `id` in the file
fn count(d: &Disk, id: i8) -> usize {
    let mut c = 0; let mut i = 0;
    while i < 8 { if i < d.len && d.lines[i] == id && !d.ts[i] { c += 1; } i += 1; }
    c
}
fn first_pos(d: &Disk, id: i8) -> usize {
    let mut i = 0;
    while i < 8 { if i < d.len && d.lines[i] == id && !d.ts[i] { return i; } i += 1; }
    99
}

fn save(h: &mut Hist, disk: &mut Disk, full: bool, ts: bool) {
    let mut env = Env { disk: disk as *mut Disk };
    let r = if full { k_flush(h, &mut env, std::path::Path::new("/h"), false, false, ts) } else { k_flush(h, &mut env, std::path::Path::new("/h"), true, true, ts) };
    std::mem::forget(r);
}

fn scenario(modulo_known: bool) {
    let d0: bool = kani::any();
    let d1: bool = kani::any();
    kani::assume(!d0 || d1);                    // dirty items form a suffix
    let has_ts: [bool; 2] = kani::any();
    let mut h = Hist { items: [0, 1], id_map: MapRec { items: [
        KItem { dirty: d0, timestamp: if has_ts[0] { Some(TsProbe) } else { None }, command_line: 0 },
        KItem { dirty: d1, timestamp: if has_ts[1] { Some(TsProbe) } else { None }, command_line: 0 } ] } };
    // the file already holds the clean (imported) items
    let mut disk = Disk { lines: [-1; 8], ts: [false; 8], len: 0, truncations: 0, writes: 0, fail_at: 0 };
    if !d0 { disk.lines[disk.len] = 0; disk.len += 1; }
    if !d1 { disk.lines[disk.len] = 1; disk.len += 1; }
    let full: [bool; 3] = kani::any();        // which call site each of the three saves comes from
    let ts: bool = kani::any();
    let mut seen_full = false;
    let mut k = 0;
    while k < 3 {
        let still_dirty = h.id_map.items[0].dirty || h.id_map.items[1].dirty;
        if modulo_known {
            // KNOWN FINDING D14 region: an unsaved-only save that follows a full write while an item is still marked dirty
            kani::assume(!(seen_full && !full[k] && still_dirty));
        }
        let len_before = disk.len;
        let saved_before = k > 0;
        save(&mut h, &mut disk, full[k], ts);
        kani::cover!(modulo_known || (k == 1 && full[0] && !full[1] && d1), "full_write_then_exit_save");
        kani::cover!(k == 1 && full[0] && !full[1], "full_write_then_append_save");
        kani::cover!(k == 2 && !full[0] && !full[1] && !full[2] && d0, "three_exit_saves");
        // after any save every item is in the file exactly once, in recording order
        assert!(count(&disk, 0) == 1 && count(&disk, 1) == 1, "C20.flush.each_item_exactly_once");
        assert!(first_pos(&disk, 0) < first_pos(&disk, 1), "C20.flush.recording_order");
        // saving again without new commands adds nothing
        if saved_before && !full[k] { assert!(disk.len == len_before, "C20.flush.second_save_adds_nothing"); }
        if full[k] { seen_full = true; }
        k += 1;
    }
    // timestamps stay attached: a timestamp line is always immediately followed by its own command line
    let mut i = 0;
    while i < 7 {
        if i < disk.len && disk.ts[i] { assert!(i + 1 < disk.len && !disk.ts[i + 1] && disk.lines[i + 1] == disk.lines[i], "C20.flush.timestamp_attached"); }
        i += 1;
    }
    if !ts { let mut j = 0; while j < 8 { if j < disk.len { assert!(!disk.ts[j], "C20.flush.no_timestamps_when_disabled"); } j += 1; } }
    std::mem::forget(h);
}

//@proof {'props': ['C20'], 'tier': 'quick', 'timeout': 900, 'known': 'D14', 'bounds': '2 items, 3 saves from {exit/-a, -w}, symbolic dirty flags and timestamps', 'desc': 'FULL save protocol, expected to fail on the recorded finding D14 (history -w then exit save duplicates)'}
#[kani::proof]
#[kani::unwind(10)]
fn vk_c20_flush_sequences_full() { scenario(false); }

//@proof {'props': ['C20'], 'tier': 'quick', 'timeout': 900, 'bounds': '2 items, 3 saves from {exit/-a, -w}, symbolic dirty flags and timestamps; the D14 region (unsaved-only save after a full write with dirty items) is assumed away', 'desc': 'save protocol outside the recorded finding: each item exactly once and in order after every save, repeated saves add nothing, timestamps attached'}
#[kani::proof]
#[kani::unwind(10)]
fn vk_c20_flush_sequences_modulo_known() { scenario(true); }

//@proof {'props': ['C20'], 'tier': 'quick', 'timeout': 900, 'bounds': '2 items, exit/-a saves only (3 in a row)', 'desc': 'append-only sessions: the unsaved-only protocol alone (no full write involved)'}
#[kani::proof]
#[kani::unwind(10)]
fn vk_c20_flush_append_only() {
    // same scenario restricted to the append call site; no exclusion needed
    let d1: bool = kani::any();
    let d0: bool = kani::any();
    kani::assume(!d0 || d1);
    let mut h = Hist { items: [0, 1], id_map: MapRec { items: [ KItem { dirty: d0, timestamp: None, command_line: 0 }, KItem { dirty: d1, timestamp: None, command_line: 0 } ] } };
    let mut disk = Disk { lines: [-1; 8], ts: [false; 8], len: 0, truncations: 0, writes: 0, fail_at: 0 };
    if !d0 { disk.lines[disk.len] = 0; disk.len += 1; }
    if !d1 { disk.lines[disk.len] = 1; disk.len += 1; }
    save(&mut h, &mut disk, false, false);
    let l1 = disk.len;
    kani::cover!(d0 && d1, "both_unsaved");
    assert!(l1 == 2 && disk.lines[0] == 0 && disk.lines[1] == 1, "C20.append.file_is_the_history");
    assert!(!h.id_map.items[0].dirty && !h.id_map.items[1].dirty, "C20.append.items_marked_saved");
    save(&mut h, &mut disk, false, false);
    save(&mut h, &mut disk, false, false);
    assert!(disk.len == l1 && disk.truncations == 0, "C20.append.idempotent");
    std::mem::forget(h);
}

//@proof {'props': ['C20'], 'tier': 'quick', 'timeout': 900, 'uses': ['flush'], 'bounds': '2 unsaved items (timestamps symbolic); an append save in which the k-th write fails (k symbolic, or none); then a second append save without fault', 'desc': 'write fault during a save: an item is marked saved only if its command line reached the file, so the next save persists what the failed one did not; after the second save every command is in the file exactly once and in order'}
#[kani::proof]
#[kani::unwind(10)]
fn vk_c20_flush_write_fault() {
    let has_ts: [bool; 2] = kani::any();
    let ts: bool = kani::any();
    let mut h = Hist { items: [0, 1], id_map: MapRec { items: [
        KItem { dirty: true, timestamp: if has_ts[0] { Some(TsProbe) } else { None }, command_line: 0 },
        KItem { dirty: true, timestamp: if has_ts[1] { Some(TsProbe) } else { None }, command_line: 0 } ] } };
    let mut disk = Disk { lines: [-1; 8], ts: [false; 8], len: 0, truncations: 0, writes: 0, fail_at: kani::any() };
    kani::assume(disk.fail_at <= 5);
    save(&mut h, &mut disk, false, ts);
    kani::cover!(disk.fail_at == 1, "first_write_fails");
    kani::cover!(disk.fail_at == 2 && ts && has_ts[0], "command_line_write_fails_after_its_timestamp");
    kani::cover!(disk.fail_at == 0, "no_fault");
    // clean implies persisted
    if !h.id_map.items[0].dirty { assert!(count(&disk, 0) == 1, "C20.fault.item_marked_saved_only_after_its_line_was_written"); }
    if !h.id_map.items[1].dirty { assert!(count(&disk, 1) == 1, "C20.fault.item_marked_saved_only_after_its_line_was_written"); }
    // nothing is written twice by the failed save
    assert!(count(&disk, 0) <= 1 && count(&disk, 1) <= 1, "C20.fault.no_duplicates");
    // the next (fault-free) save completes the job
    disk.fail_at = 0;
    save(&mut h, &mut disk, false, ts);
    assert!(count(&disk, 0) == 1 && count(&disk, 1) == 1, "C20.fault.next_save_persists_every_command_exactly_once");
    assert!(first_pos(&disk, 0) < first_pos(&disk, 1), "C20.fault.recording_order");
    assert!(!h.id_map.items[0].dirty && !h.id_map.items[1].dirty, "C20.fault.all_saved");
    std::mem::forget(h);
}
