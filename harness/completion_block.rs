/*@meta
{
 'package': 'brush-core',
 'host': 'brush-core/src/completion.rs',
 'stubs': ['tracing -> no-op stub crate',
           'de-async lift of the tail of Spec::call_completion_function, from the statement that suppresses trap delivery to the end of the function, over a duck-typed shell: acquire / release of the trap-delivery block are counted, invoke_function -> oracle returning any status (124 = "restart completion" included) or an error, env_mut().unset(..) -> recorder returning "no such variable"',
           'crate::error::Error -> light stand-in inside the harness module (drop glue)'],
 'assumptions': ['COMPREPLY is not set (the candidate list itself is not the subject)'],
 'out_of_claim': ['how the completion function is looked up and its arguments built (strings)', 'the other users of the block (none in this tree)', 'what invoke_trap_handler does while delivery is suppressed (returns success: read in shell/traps.rs; decided for the counter itself by callstack_rehost)'],
}
@*/
/*@recipes
{
 'tail': {'file': 'brush-core/src/completion.rs', 'start': r'shell\.acquire_trap_delivery_block\(\);', 'mode': 'until', 'end': r'\n    \}\n\}\n', 'deasync': True,
        'rewrites': [[r'(?s)shell\s*\.invoke_function\(function_name, args\.iter\(\), params\)', r'__o.invoke(shell)', 1]]},
}
@*/
use super::{variables, Answer, ProcessingOptions};
use super::trace_categories;

pub mod error { #[derive(Debug)] pub struct Error(pub u8); impl std::fmt::Display for Error { fn fmt(&self, _f: &mut std::fmt::Formatter<'_>) -> std::fmt::Result { Ok(()) } } }
pub struct DEnv { pub unsets: u8 }
impl DEnv { pub fn unset(&mut self, _n: &str) -> Result<Option<variables::ShellVariable>, error::Error> { self.unsets += 1; Ok(None) } }
pub struct DSh { pub blocks: i8, pub released_before_invoke: bool, pub invoked: u8, pub blocks_at_invoke: i8, pub e: DEnv }
impl DSh {
    pub fn acquire_trap_delivery_block(&mut self) { self.blocks += 1; }
    pub fn release_trap_delivery_block(&mut self) { if self.invoked == 0 { self.released_before_invoke = true; } self.blocks -= 1; }
    pub fn default_exec_params(&self) -> u8 { 0 }
    pub fn env_mut(&mut self) -> &mut DEnv { &mut self.e }
}
pub struct IOracle { pub outcome: Result<u8, u8> }
impl IOracle { fn invoke(&mut self, shell: &mut DSh) -> Result<u8, error::Error> { shell.invoked += 1; shell.blocks_at_invoke = shell.blocks; match self.outcome { Ok(s) => Ok(s), Err(e) => Err(error::Error(e)) } } }

#[allow(unused_variables, unused_mut)]
fn t_tail(shell: &mut DSh, function_name: &str, args: Vec<&str>, vars_to_remove: Vec<&str>, __o: &mut IOracle) -> Result<Answer, error::Error> {
    /*@LIFT tail*/
}

//@proof {'props': ['C16', 'C18'], 'tier': 'quick', 'timeout': 600, 'uses': ['tail'], 'bounds': 'the completion function ends with any status 0..255 (124 = restart request included) or with an error (symbolic)', 'desc': 'running a completion function suppresses trap delivery while it runs and lifts the suppression again on EVERY way out - also when the function asks for a restart (status 124) or fails; a block that stayed would silence the EXIT, ERR and DEBUG traps for the rest of the session'}
#[kani::proof]
#[kani::unwind(4)]
fn vk_c16_completion_releases_the_trap_block() {
    let mut sh = DSh { blocks: 0, released_before_invoke: false, invoked: 0, blocks_at_invoke: 0, e: DEnv { unsets: 0 } };
    let outcome: Result<u8, u8> = if kani::any() { Ok(kani::any()) } else { Err(1) };
    let mut o = IOracle { outcome };
    let mut rm = Vec::with_capacity(1); rm.push("COMP_LINE");
    let r = t_tail(&mut sh, "f", Vec::new(), rm, &mut o);
    kani::cover!(outcome == Ok(124), "restart_request");
    kani::cover!(outcome.is_err(), "function_failed");
    assert!(sh.invoked == 1 && sh.blocks_at_invoke == 1 && !sh.released_before_invoke, "C16.completion.traps_suppressed_while_the_function_runs");
    assert!(sh.blocks == 0, "C16.completion.suppression_lifted_on_every_way_out");
    assert!(matches!(&r, Ok(Answer::RestartCompletionProcess)) == (outcome == Ok(124)), "C16.completion.restart_exactly_on_124");
    std::mem::forget(r);
}
