/*@meta
{
 'package': 'brush-parser',
 'host': 'brush-parser/src/word.rs',
 'stubs': ['the matched digit string `n` of the PEG rule is bound to a duck-typed stand-in whose parse() returns an arbitrary Result obeying std\'s contract for a non-empty ASCII digit string: Ok(v) with 0 <= v <= MAX, or Err (overflow)'],
 'assumptions': ['std::str::parse::<iN/uN> on a digit string returns Ok(non-negative) or Err(PosOverflow)'],
 'out_of_claim': ['the PEG machinery that recognises the digits (tokenizer, peg.rs, word grammar on arbitrary text)'],
}
@*/
/*@recipes
{
 'brace_number': {'file': 'brush-parser/src/word.rs', 'start': r"rule number\(\) -> i64 = sign:number_sign\(\)\? n:\$\(\['0'\.\.='9'\]\+\) ", 'mode': 'fn_body', 'peg_action': True},
 'tilde_top': {'file': 'brush-parser/src/word.rs', 'start': r"plus:\(\"\+\"\?\) n:\$\(\['0'\.\.='9'\]\*\) &tilde_terminator\(\) ", 'mode': 'fn_body', 'peg_action': True},
 'tilde_bottom': {'file': 'brush-parser/src/word.rs', 'start': r"\"-\" n:\$\(\['0'\.\.='9'\]\*\) &tilde_terminator\(\) ", 'mode': 'fn_body', 'peg_action': True},
 'positional': {'file': 'brush-parser/src/word.rs', 'start': r"rule positional_parameter\(\) -> u32 =\s*n:\$\(\['1'\.\.='9'\]\(\['0'\.\.='9'\]\*\)\) ", 'mode': 'fn_body', 'peg_action': True},
}
@*/
use super::*;

/// stand-in for the matched digit text: `n.parse()` is an oracle with std's contract
pub struct Digits { pub ok: bool, pub v: u64 }
#[derive(Debug)]
pub struct Overflow;
pub trait FromDigits: Sized { fn from_u64(v: u64) -> Option<Self>; }
impl FromDigits for i64 { fn from_u64(v: u64) -> Option<Self> { if v <= i64::MAX as u64 { Some(v as i64) } else { None } } }
impl FromDigits for u32 { fn from_u64(v: u64) -> Option<Self> { if v <= u32::MAX as u64 { Some(v as u32) } else { None } } }
impl FromDigits for usize { fn from_u64(v: u64) -> Option<Self> { Some(v as usize) } }
impl Digits {
    pub fn parse<T: FromDigits>(&self) -> Result<T, Overflow> {
        if !self.ok { return Err(Overflow); }
        match T::from_u64(self.v) { Some(x) => Ok(x), None => Err(Overflow) }
    }
}
fn any_digits() -> Digits { Digits { ok: kani::any(), v: kani::any() } }

fn k_brace_number(sign: Option<i64>, n: Digits) -> Result<i64, &'static str> {
    #[allow(unreachable_code)]
    Ok({ /*@LIFT brace_number*/ }.into_peg())
}
fn k_tilde_top(plus: Option<()>, n: Digits) -> Result<TildeExpr, &'static str> {
    Ok({ /*@LIFT tilde_top*/ }.into_peg())
}
fn k_tilde_bottom(n: Digits) -> Result<TildeExpr, &'static str> {
    Ok({ /*@LIFT tilde_bottom*/ }.into_peg())
}
fn k_positional(n: Digits) -> Result<u32, &'static str> {
    { /*@LIFT positional*/ }
}

/// A PEG action is either infallible `{ expr }` or fallible `{? Result }`; accept both shapes.
pub trait IntoPeg<T> { fn into_peg(self) -> T; }
impl IntoPeg<i64> for i64 { fn into_peg(self) -> i64 { self } }
impl IntoPeg<TildeExpr> for TildeExpr { fn into_peg(self) -> TildeExpr { self } }
impl<T> IntoPeg<T> for Result<T, &'static str> { fn into_peg(self) -> T { match self { Ok(v) => v, Err(_) => { kani::assume(false); unreachable!() } } } }

//@proof {'props': ['C01'], 'tier': 'quick', 'setup': True, 'timeout': 300, 'bounds': 'sign in {none,+,-}; digit string of any length (parse outcome arbitrary within std contract)', 'desc': 'brace-sequence number action: never panics whatever the digit string (D2: {1..99999999999999999999})'}
#[kani::proof]
#[kani::unwind(2)]
fn vk_c01_brace_number_action() {
    let s: u8 = kani::any();
    kani::assume(s < 3);
    let sign = match s { 0 => None, 1 => Some(1i64), _ => Some(-1i64) };
    let n = any_digits();
    kani::cover!(!n.ok, "digit_string_overflows_i64");
    kani::cover!(n.ok && n.v == i64::MAX as u64 && s == 2, "max_negated");
    let r = k_brace_number(sign, n);
    // the contract the brace-sequence expander relies on (assumed by vk_c01_brace_number_sequence): sign x magnitude never yields i64::MIN
    if let Ok(v) = &r { assert!(*v != i64::MIN, "C01.brace.number_is_never_i64_min"); }
    std::mem::forget(r);
}

//@proof {'props': ['C01'], 'tier': 'quick', 'timeout': 300, 'bounds': 'digit string of any length', 'desc': 'tilde ~N / ~+N / ~-N actions: never panic whatever the digit string (D16: ~99999999999999999999999)'}
#[kani::proof]
#[kani::unwind(2)]
fn vk_c01_tilde_dirstack_actions() {
    let n = any_digits();
    kani::cover!(!n.ok, "digit_string_overflows");
    if kani::any() {
        let plus = if kani::any() { Some(()) } else { None };
        let r = k_tilde_top(plus, n);
        std::mem::forget(r);
    } else {
        let r = k_tilde_bottom(n);
        std::mem::forget(r);
    }
}

//@proof {'props': ['C01'], 'tier': 'quick', 'timeout': 300, 'bounds': 'digit string of any length', 'desc': 'positional parameter action ${N}: overflow is a parse error, never a panic'}
#[kani::proof]
#[kani::unwind(2)]
fn vk_c01_positional_action() {
    let n = any_digits();
    kani::cover!(!n.ok, "digit_string_overflows");
    let r = k_positional(n);
    std::mem::forget(r);
}
