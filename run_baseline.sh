#!/bin/bash
# Runs the repository's pinned test suite (the command of /root/.vp/BASELINE.json) with the verification guard OFF
# (there is no guard in /repo: harnesses are injected into a scratch copy only).
cd /repo/$(cat /w/out/cargo_root.txt 2>/dev/null) || exit 2
if [ -f /w/lib/nextest.toml ] && command -v cargo-nextest >/dev/null; then
  exec cargo nextest run --workspace --no-fail-fast --tool-config-file pb:/w/lib/nextest.toml --profile pb --test-threads 8 --offline "$@"
else
  exec cargo test --workspace --no-fail-fast --offline "$@"
fi
