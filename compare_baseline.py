#!/usr/bin/env python3
"""Compare a nextest junit.xml against BASELINE.json's stable_pass list. Exit 0 iff every stable_pass test passed."""
import json, sys, xml.etree.ElementTree as ET, glob
base = json.load(open('/root/.vp/BASELINE.json'))
stable = set(base['stable_pass'])
path = sys.argv[1] if len(sys.argv) > 1 else '/repo/target/nextest/pb/junit.xml'
root = ET.parse(path).getroot()
status = {}
for ts in root.iter('testsuite'):
    for tc in ts.iter('testcase'):
        name = ts.get('name') + '::' + tc.get('name')
        bad = any(ch.tag in ('failure', 'error') for ch in tc)
        status[name] = not bad
missing = [t for t in stable if t not in status]
failed = [t for t in stable if t in status and not status[t]]
print('stable_pass=%d ran=%d missing=%d failed=%d' % (len(stable), len(status), len(missing), len(failed)))
for t in failed[:40]: print('FAILED', t)
for t in missing[:10]: print('MISSING', t)
sys.exit(1 if failed or missing else 0)
